#![no_main]
//! libFuzzer target for C15 / C16: bytes are decoded into a structured T-Digest case (scale function,
//! delta, backlog, weighted values or an operation history with reads and clears) and run through the
//! same oracles as the proptest-driven checks.
use arbitrary::Unstructured;
use libfuzzer_sys::fuzz_target;
use pdsverif::engine::{guarded_eval, Verdict};
use pdsverif::props::fuzzdecode;
use std::sync::Once;

static INIT: Once = Once::new();

fuzz_target!(|data: &[u8]| {
    INIT.call_once(pdsverif::engine::install_panic_hook);
    let mut u = Unstructured::new(data);
    let Ok(which) = u.int_in_range(0u8..=1) else { return };
    let verdict = match which {
        0 => match fuzzdecode::c15(&mut u) {
            Ok(c) => guarded_eval(&pdsverif::props::c15::C15, &c),
            Err(_) => return,
        },
        _ => match fuzzdecode::c16(&mut u) {
            Ok(c) => guarded_eval(&pdsverif::props::c16::C16, &c),
            Err(_) => return,
        },
    };
    if let Verdict::Fail { sig, msg } = verdict {
        eprintln!("t-digest oracle violated (target {}): {} — {}", which, sig, msg);
        std::process::abort();
    }
});
