#![no_main]
//! libFuzzer target for C12 / C13 / C14 / C01: bytes are decoded into a structured case (configuration,
//! hasher family, RNG script, key universe, operation history) and run through the same oracles
//! as the proptest-driven checks.
use arbitrary::Unstructured;
use libfuzzer_sys::fuzz_target;
use pdsverif::engine::{guarded_eval, Verdict};
use pdsverif::props::fuzzdecode;
use std::sync::Once;

static INIT: Once = Once::new();

fuzz_target!(|data: &[u8]| {
    INIT.call_once(pdsverif::engine::install_panic_hook);
    let mut u = Unstructured::new(data);
    let Ok(which) = u.int_in_range(0u8..=3) else { return };
    let verdict = match which {
        0 => match fuzzdecode::c12(&mut u) {
            Ok(c) => guarded_eval(&pdsverif::props::c12::C12, &c),
            Err(_) => return,
        },
        1 => match fuzzdecode::c13(&mut u) {
            Ok(c) => guarded_eval(&pdsverif::props::c13::Random, &c),
            Err(_) => return,
        },
        2 => match fuzzdecode::c14(&mut u) {
            Ok(c) => guarded_eval(&pdsverif::props::c14::Random, &c),
            Err(_) => return,
        },
        _ => match fuzzdecode::c01(&mut u) {
            Ok(c) => guarded_eval(&pdsverif::props::c01::C01, &c),
            Err(_) => return,
        },
    };
    if let Verdict::Fail { sig, msg } = verdict {
        eprintln!("filter oracle violated (target {}): {} — {}", which, sig, msg);
        std::process::abort();
    }
});
