#![no_main]
//! libFuzzer target for C20: arbitrary bytes -> serde_json -> HyperLogLog; the invariant oracle
//! (Err, or a sketch satisfying the constructor's invariants on which add/count/merge do not
//! panic) lives inside the target.
use libfuzzer_sys::fuzz_target;
use std::sync::Once;

static INIT: Once = Once::new();

fuzz_target!(|data: &[u8]| {
    INIT.call_once(pdsverif::engine::install_panic_hook);
    if let Err((sig, msg)) = pdsverif::props::c20::check_bytes(data) {
        eprintln!("C20 oracle violated: {} — {}", sig, msg);
        std::process::abort();
    }
});
