#![no_main]
//! libFuzzer target for C02 / C09 / C10: bytes are decoded into a structured case (sketch shape,
//! counter type, hasher family, key universe and add/add_n/merge/clear history; LossyCounter
//! constructor and stream; CMSHeap k, sketch shape and stream) and run through the same oracles
//! as the proptest-driven checks.
use arbitrary::Unstructured;
use libfuzzer_sys::fuzz_target;
use pdsverif::engine::{guarded_eval, Verdict};
use pdsverif::props::fuzzdecode;
use std::sync::Once;

static INIT: Once = Once::new();

fuzz_target!(|data: &[u8]| {
    INIT.call_once(pdsverif::engine::install_panic_hook);
    let mut u = Unstructured::new(data);
    let Ok(which) = u.int_in_range(0u8..=2) else { return };
    let verdict = match which {
        0 => match fuzzdecode::c02(&mut u) {
            Ok(c) => guarded_eval(&pdsverif::props::c02::C02, &c),
            Err(_) => return,
        },
        1 => match fuzzdecode::c09(&mut u) {
            Ok(c) => guarded_eval(&pdsverif::props::c09::C09, &c),
            Err(_) => return,
        },
        _ => match fuzzdecode::c10(&mut u) {
            Ok(c) => guarded_eval(&pdsverif::props::c10::C10, &c),
            Err(_) => return,
        },
    };
    if let Verdict::Fail { sig, msg } = verdict {
        eprintln!("sketch oracle violated (target {}): {} — {}", which, sig, msg);
        std::process::abort();
    }
});
