use pdatastructs::tdigest::{TDigest, K0};
fn main() {
    let mut d = TDigest::new(K0::new(10.0), 0);
    d.insert_weighted(0.1, 1e-6);
    d.insert_weighted(0.1, 1.0);
    d.insert_weighted(0.2, 1.0);
    println!("{:?}", d);
    println!("{}", d.quantile(0.2500003749998125));
}
