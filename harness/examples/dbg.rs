// one-off measurement of near-bound Bloom cells (not part of any check)
use pdatastructs::filters::bloomfilter::BloomFilter;
use pdatastructs::filters::Filter;
use pdsverif::engine::mix;
use pdsverif::support::hashers::{GenBH, HKind};
fn main() {
    for &(n, p) in &[(50usize, 3e-4f64), (100, 1e-4), (75, 1e-4), (50, 1e-4)] {
        let seeds = 3200u64;
        let probes = 400_000u64;
        let per: Vec<f64> = std::thread::scope(|s| {
            let hs: Vec<_> = (0..16u64)
                .map(|t| {
                    s.spawn(move || {
                        let mut v = vec![];
                        for sd in (t * seeds / 16)..((t + 1) * seeds / 16) {
                            let hsd = mix(12345, sd);
                            let mut f: BloomFilter<u64, GenBH> = BloomFilter::with_properties_and_hash(n, p, GenBH(HKind::Seeded(hsd % (1 << 48))));
                            for i in 0..n as u64 {
                                f.insert(&(mix(hsd, i) << 1)).unwrap();
                            }
                            let mut hits = 0u64;
                            for j in 0..probes {
                                if f.query(&((mix(hsd ^ 0x5555, j) << 1) | 1)) {
                                    hits += 1;
                                }
                            }
                            v.push(hits as f64 / probes as f64);
                        }
                        v
                    })
                })
                .collect();
            hs.into_iter().flat_map(|h| h.join().unwrap()).collect()
        });
        let m = per.iter().sum::<f64>() / per.len() as f64;
        let sd = (per.iter().map(|x| (x - m) * (x - m)).sum::<f64>() / (per.len() as f64 - 1.0)).sqrt();
        println!("n={} p={} rate/p = {:.4} +- {:.4}  (bound 1.3)", n, p, m / p, sd / (per.len() as f64).sqrt() / p);
    }
}
