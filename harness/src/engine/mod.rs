//! Engine: tiers, verdicts, per-run context, parallel proptest runner, fixed-case runner,
//! evidence writer, replay and known-findings handling.

pub mod fuzz;
pub mod known;
pub mod stat;

use proptest::strategy::{BoxedStrategy, Strategy};
use proptest::test_runner::{Config, RngAlgorithm, RngSeed, TestCaseError, TestError, TestRunner};
use serde::de::DeserializeOwned;
use serde::Serialize;
use serde_json::{json, Value};
use std::collections::{BTreeMap, HashSet};
use std::fmt::Debug;
use std::panic::{catch_unwind, AssertUnwindSafe};
use std::sync::atomic::{AtomicBool, AtomicU64, AtomicUsize, Ordering};
use std::sync::Mutex;
use std::time::Instant;

#[derive(Clone, Copy, PartialEq, Eq, Debug)]
pub enum Tier {
    Quick,
    Thorough,
}

impl Tier {
    pub fn name(self) -> &'static str {
        match self {
            Tier::Quick => "quick",
            Tier::Thorough => "thorough",
        }
    }
    /// pick by tier
    pub fn pick<T>(self, q: T, t: T) -> T {
        match self {
            Tier::Quick => q,
            Tier::Thorough => t,
        }
    }
}

/// What a passing evaluation reports about the case it looked at.
#[derive(Clone, Debug, Default)]
pub struct Info {
    /// non-trivial by the property's stated rule
    pub nontrivial: bool,
    /// canonical hash of the case (distinctness)
    pub key: u64,
    /// class labels for the generator-health histogram
    pub classes: Vec<&'static str>,
    /// optional per-case detail (statistical cells) appended to evidence
    pub detail: Option<Value>,
    /// extra evaluations this case stands for (e.g. inner executions); 0 = just the case
    pub inner_evals: u64,
}

impl Info {
    pub fn new(nontrivial: bool, key: u64) -> Self {
        Info {
            nontrivial,
            key,
            ..Default::default()
        }
    }
    pub fn class(mut self, c: &'static str) -> Self {
        self.classes.push(c);
        self
    }
    pub fn class_if(mut self, cond: bool, c: &'static str) -> Self {
        if cond {
            self.classes.push(c);
        }
        self
    }
    pub fn detail(mut self, v: Value) -> Self {
        self.detail = Some(v);
        self
    }
    pub fn inner(mut self, n: u64) -> Self {
        self.inner_evals = n;
        self
    }
}

pub enum Verdict {
    Pass(Info),
    /// `sig` names the failing input/call site class (used for known findings), `msg` explains.
    Fail { sig: String, msg: String },
}

pub fn fail<S: Into<String>, M: Into<String>>(sig: S, msg: M) -> Verdict {
    Verdict::Fail {
        sig: sig.into(),
        msg: msg.into(),
    }
}

/// One executable oracle over one kind of case.
pub trait Check: Sync {
    type Case: Serialize + DeserializeOwned + Debug + Clone + Send + Sync + 'static;
    fn name(&self) -> &'static str;
    fn eval(&self, case: &Self::Case) -> Verdict;
}

/// Object-safe view used by replay / regressions.
pub trait DynCheck: Sync {
    fn dyn_name(&self) -> &'static str;
    fn eval_json(&self, v: &Value) -> Result<Verdict, String>;
}

impl<C: Check> DynCheck for C {
    fn dyn_name(&self) -> &'static str {
        self.name()
    }
    fn eval_json(&self, v: &Value) -> Result<Verdict, String> {
        let case: C::Case = serde_json::from_value(v.clone()).map_err(|e| e.to_string())?;
        Ok(guarded_eval(self, &case))
    }
}

thread_local! {
    static LAST_PANIC: std::cell::RefCell<Option<String>> = const { std::cell::RefCell::new(None) };
}

pub fn install_panic_hook() {
    std::panic::set_hook(Box::new(|info| {
        let loc = info
            .location()
            .map(|l| format!("{}:{}", l.file(), l.line()))
            .unwrap_or_default();
        let msg = if let Some(s) = info.payload().downcast_ref::<&str>() {
            s.to_string()
        } else if let Some(s) = info.payload().downcast_ref::<String>() {
            s.clone()
        } else {
            "<non-string panic>".to_string()
        };
        LAST_PANIC.with(|p| *p.borrow_mut() = Some(format!("{} @ {}", msg, loc)));
    }));
}

pub fn take_panic() -> String {
    LAST_PANIC
        .with(|p| p.borrow_mut().take())
        .unwrap_or_else(|| "<unknown panic>".into())
}

/// Run `f`, turning a panic into `Err(message @ file:line)`.
pub fn catch<T>(f: impl FnOnce() -> T) -> Result<T, String> {
    match catch_unwind(AssertUnwindSafe(f)) {
        Ok(v) => Ok(v),
        Err(_) => Err(take_panic()),
    }
}

/// Short signature for a panic: strip volatile numbers, keep file name and message head.
pub fn panic_sig(p: &str) -> String {
    let (msg, loc) = match p.rsplit_once(" @ ") {
        Some((m, l)) => (m, l),
        None => (p, ""),
    };
    let file = loc.rsplit('/').next().unwrap_or("");
    let file = file.split(':').next().unwrap_or("");
    let head: String = msg
        .chars()
        .take(48)
        .map(|c| if c.is_ascii_digit() { '#' } else { c })
        .collect();
    format!("panic:{}:{}", file, head)
}

pub fn guarded_eval<C: Check + ?Sized>(c: &C, case: &C::Case) -> Verdict {
    match catch(|| c.eval(case)) {
        Ok(v) => v,
        Err(p) => Verdict::Fail {
            sig: panic_sig(&p),
            msg: format!("panic escaped the oracle: {}", p),
        },
    }
}

pub fn hash64<T: std::hash::Hash + ?Sized>(t: &T) -> u64 {
    use std::hash::Hasher;
    let mut h = std::collections::hash_map::DefaultHasher::new();
    t.hash(&mut h);
    h.finish()
}

pub fn hash_json<T: Serialize>(t: &T) -> u64 {
    hash64(&serde_json::to_string(t).unwrap_or_default())
}

pub fn mix64(mut z: u64) -> u64 {
    z = z.wrapping_add(0x9E37_79B9_7F4A_7C15);
    z = (z ^ (z >> 30)).wrapping_mul(0xBF58_476D_1CE4_E5B9);
    z = (z ^ (z >> 27)).wrapping_mul(0x94D0_49BB_1331_11EB);
    z ^ (z >> 31)
}

pub fn mix(a: u64, b: u64) -> u64 {
    mix64(mix64(a) ^ b.rotate_left(17))
}

pub fn mix_str(a: u64, s: &str) -> u64 {
    mix(a, hash64(s))
}

#[derive(Default)]
struct SubAcc {
    evaluations: u64,
    cases: u64,
    nontrivial_cases: u64,
    keys: HashSet<u64>,
    /// non-trivial cases that are distinct by construction (exhaustive enumerators): counted, not hashed
    distinct_by_construction: u64,
    classes: BTreeMap<&'static str, u64>,
    samples_trivial: Vec<Value>,
    samples_nontrivial: Vec<Value>,
    details: Vec<Value>,
    known_hits: BTreeMap<String, u64>,
    exhaustive: Option<String>,
    notes: Vec<String>,
}

impl SubAcc {
    fn merge(&mut self, o: SubAcc) {
        self.evaluations += o.evaluations;
        self.cases += o.cases;
        self.nontrivial_cases += o.nontrivial_cases;
        self.keys.extend(o.keys);
        self.distinct_by_construction += o.distinct_by_construction;
        for (k, v) in o.classes {
            *self.classes.entry(k).or_insert(0) += v;
        }
        for s in o.samples_trivial {
            if self.samples_trivial.len() < 1 {
                self.samples_trivial.push(s);
            }
        }
        for s in o.samples_nontrivial {
            if self.samples_nontrivial.len() < 2 {
                self.samples_nontrivial.push(s);
            }
        }
        for d in o.details {
            if self.details.len() < 600 {
                self.details.push(d);
            }
        }
        for (k, v) in o.known_hits {
            *self.known_hits.entry(k).or_insert(0) += v;
        }
        if o.exhaustive.is_some() {
            self.exhaustive = o.exhaustive;
        }
        self.notes.extend(o.notes);
    }
}

/// Thread-local accumulator handed to workers.
pub struct Acc {
    inner: SubAcc,
}

impl Acc {
    fn new() -> Self {
        Acc {
            inner: SubAcc::default(),
        }
    }
    pub fn pass<C: Serialize>(&mut self, case: &C, info: Info) {
        let a = &mut self.inner;
        a.cases += 1;
        a.evaluations += 1 + info.inner_evals;
        for c in &info.classes {
            *a.classes.entry(c).or_insert(0) += 1;
        }
        if info.nontrivial {
            a.nontrivial_cases += 1;
            let fresh = a.keys.insert(info.key);
            if fresh && a.samples_nontrivial.len() < 2 {
                a.samples_nontrivial.push(trim_sample(serde_json::to_value(case).unwrap_or(Value::Null)));
            }
        } else if a.samples_trivial.is_empty() {
            a.samples_trivial.push(trim_sample(serde_json::to_value(case).unwrap_or(Value::Null)));
        }
        if let Some(d) = info.detail {
            if a.details.len() < 600 {
                a.details.push(d);
            }
        }
    }
    /// For enumerators that do not want to serialise every case.
    pub fn pass_light(&mut self, nontrivial: bool, key: u64, sample: impl FnOnce() -> Value) {
        let a = &mut self.inner;
        a.cases += 1;
        a.evaluations += 1;
        if nontrivial {
            a.nontrivial_cases += 1;
            let fresh = a.keys.insert(key);
            if fresh && a.samples_nontrivial.len() < 2 {
                a.samples_nontrivial.push(trim_sample(sample()));
            }
        } else if a.samples_trivial.is_empty() {
            a.samples_trivial.push(trim_sample(sample()));
        }
    }
    /// For exhaustive enumerators: every enumerated case is distinct by construction, so distinct
    /// non-trivial cases are counted without keeping a hash set of hundreds of millions of keys.
    pub fn pass_enum(&mut self, nontrivial: bool, sample: impl FnOnce() -> Value) {
        let a = &mut self.inner;
        a.cases += 1;
        a.evaluations += 1;
        if nontrivial {
            a.nontrivial_cases += 1;
            a.distinct_by_construction += 1;
            if a.samples_nontrivial.len() < 2 {
                a.samples_nontrivial.push(trim_sample(sample()));
            }
        } else if a.samples_trivial.is_empty() {
            a.samples_trivial.push(trim_sample(sample()));
        }
    }
    pub fn class(&mut self, c: &'static str) {
        *self.inner.classes.entry(c).or_insert(0) += 1;
    }
    pub fn class_n(&mut self, c: &'static str, n: u64) {
        *self.inner.classes.entry(c).or_insert(0) += n;
    }
}

/// keep samples readable: truncate very long arrays
fn trim_sample(v: Value) -> Value {
    match v {
        Value::Array(a) => {
            let n = a.len();
            let mut out: Vec<Value> = a.into_iter().take(60).map(trim_sample).collect();
            if n > 60 {
                out.push(Value::String(format!("… {} more", n - 60)));
            }
            Value::Array(out)
        }
        Value::Object(m) => Value::Object(m.into_iter().map(|(k, v)| (k, trim_sample(v))).collect()),
        x => x,
    }
}

pub struct Failure {
    pub sub: String,
    pub sig: String,
    pub msg: String,
    pub case: Value,
    pub replay_path: String,
}

pub struct Ctx {
    pub prop: String,
    pub tier: Tier,
    pub seed: u64,
    pub jobs: usize,
    pub start: Instant,
    pub known: known::Known,
    subs: Mutex<BTreeMap<String, SubAcc>>,
    sub_order: Mutex<Vec<String>>,
    failures: Mutex<Vec<Failure>>,
    degenerate: Mutex<Vec<String>>,
    inconclusive: Mutex<Vec<String>>,
    printed_known: Mutex<HashSet<String>>,
    pub rule: Mutex<String>,
    pub assumptions: Mutex<Vec<String>>,
    pub extra: Mutex<BTreeMap<String, Value>>,
    pub strict_known: bool,
}

impl Ctx {
    pub fn new(prop: &str, tier: Tier, seed: u64, jobs: usize) -> Self {
        Ctx {
            prop: prop.to_string(),
            tier,
            seed,
            jobs,
            start: Instant::now(),
            known: known::Known::load(),
            subs: Mutex::new(BTreeMap::new()),
            sub_order: Mutex::new(vec![]),
            failures: Mutex::new(vec![]),
            degenerate: Mutex::new(vec![]),
            inconclusive: Mutex::new(vec![]),
            printed_known: Mutex::new(HashSet::new()),
            rule: Mutex::new(String::new()),
            assumptions: Mutex::new(vec![]),
            extra: Mutex::new(BTreeMap::new()),
            strict_known: false,
        }
    }

    pub fn set_rule(&self, r: &str) {
        *self.rule.lock().unwrap() = r.to_string();
    }
    pub fn assume(&self, a: &str) {
        self.assumptions.lock().unwrap().push(a.to_string());
    }
    pub fn put_extra(&self, k: &str, v: Value) {
        self.extra.lock().unwrap().insert(k.to_string(), v);
    }
    pub fn sub_seed(&self, sub: &str, worker: u64) -> u64 {
        mix(mix_str(mix_str(self.seed, &self.prop), sub), worker)
    }
    pub fn failed(&self) -> bool {
        !self.failures.lock().unwrap().is_empty()
    }

    fn merge_acc(&self, sub: &str, acc: Acc) {
        let mut subs = self.subs.lock().unwrap();
        if !subs.contains_key(sub) {
            self.sub_order.lock().unwrap().push(sub.to_string());
        }
        subs.entry(sub.to_string()).or_default().merge(acc.inner);
    }

    pub fn note(&self, sub: &str, note: String) {
        let mut a = Acc::new();
        a.inner.notes.push(note);
        self.merge_acc(sub, a);
    }

    /// account executions done by an external engine (libFuzzer) under sub-check `sub`
    pub fn add_evaluations(&self, sub: &str, n: u64, sample: Value) {
        let mut a = Acc::new();
        a.inner.evaluations = n;
        a.inner.samples_trivial.push(sample);
        self.merge_acc(sub, a);
    }

    pub fn mark_exhaustive(&self, sub: &str, space: String) {
        let mut a = Acc::new();
        a.inner.exhaustive = Some(space);
        self.merge_acc(sub, a);
    }

    pub fn inconclusive(&self, why: String) {
        self.inconclusive.lock().unwrap().push(why);
    }

    /// Handle a failing verdict: known finding → print once and count; else record violation.
    /// Returns true if it is a real (unknown) violation.
    pub fn handle_fail(&self, sub: &str, case: &Value, sig: &str, msg: &str, acc: Option<&mut Acc>) -> bool {
        if !self.strict_known {
            if let Some(k) = self.known.lookup(&self.prop, sig) {
                let mut p = self.printed_known.lock().unwrap();
                if p.insert(sig.to_string()) {
                    let this_run: String = msg.chars().take(300).collect();
                    println!("KNOWN-FINDING: property={} {} [{}] this run: {}", self.prop, k.what, sig, this_run);
                }
                drop(p);
                match acc {
                    Some(a) => {
                        *a.inner.known_hits.entry(sig.to_string()).or_insert(0) += 1;
                        a.inner.cases += 1;
                        a.inner.evaluations += 1;
                    }
                    None => {
                        let mut a = Acc::new();
                        a.inner.known_hits.insert(sig.to_string(), 1);
                        a.inner.cases += 1;
                        a.inner.evaluations += 1;
                        self.merge_acc(sub, a);
                    }
                }
                return false;
            }
        }
        self.record_failure(sub, case, sig, msg);
        true
    }

    fn record_failure(&self, sub: &str, case: &Value, sig: &str, msg: &str) {
        let mut fs = self.failures.lock().unwrap();
        // one replay per (sub, sig)
        if fs.iter().any(|f| f.sub == sub && f.sig == sig) {
            return;
        }
        let doc = json!({
            "property": self.prop,
            "sub": sub,
            "signature": sig,
            "message": msg,
            "case": case,
        });
        let h = hash_json(&doc);
        let dir = out_dir().join("replays");
        let _ = std::fs::create_dir_all(&dir);
        let path = dir.join(format!("{}-{}-{:016x}.json", self.prop, sub, h));
        let _ = std::fs::write(&path, serde_json::to_string_pretty(&doc).unwrap());
        let p = path.to_string_lossy().to_string();
        println!("VIOLATION property={} replay={}", self.prop, p);
        println!("  sub={} signature={}", sub, sig);
        let short: String = msg.chars().take(1500).collect();
        println!("  {}", short);
        fs.push(Failure {
            sub: sub.to_string(),
            sig: sig.to_string(),
            msg: msg.to_string(),
            case: case.clone(),
            replay_path: p,
        });
    }

    /// Per-case watchdog limit: a single case (not a whole check) that runs longer than this is a
    /// hang of the code under test; it is reported as INCONCLUSIVE (exit 2), never as a violation,
    /// unless violations were already found (then those are reported, exit 1).
    pub fn case_timeout(&self) -> std::time::Duration {
        let secs = std::env::var("VERIF_CASE_TIMEOUT").ok().and_then(|s| s.parse::<u64>().ok()).unwrap_or(match self.tier {
            Tier::Quick => 300,
            Tier::Thorough => 1800,
        });
        std::time::Duration::from_secs(secs)
    }

    fn save_hang(&self, sub: &str, case: Value) {
        let doc = json!({"property": self.prop, "sub": sub, "signature": "watchdog:case-timeout", "message": "this case did not finish within the per-case limit", "case": case});
        let dir = out_dir().join("replays");
        let _ = std::fs::create_dir_all(&dir);
        let path = dir.join(format!("{}-{}-hang-{:016x}.json", self.prop, sub, hash_json(&doc)));
        let _ = std::fs::write(&path, serde_json::to_string_pretty(&doc).unwrap());
        self.inconclusive(format!(
            "watchdog: a case of sub-check {} did not finish within {} s (hang or extreme slowness of the code under test); the case is saved at {}",
            sub,
            self.case_timeout().as_secs(),
            path.display()
        ));
    }

    fn hang(&self, sub: &str, case: Value) -> ! {
        let doc = json!({"property": self.prop, "sub": sub, "signature": "watchdog:case-timeout", "message": "this case did not finish within the per-case limit", "case": case});
        let dir = out_dir().join("replays");
        let _ = std::fs::create_dir_all(&dir);
        let path = dir.join(format!("{}-{}-hang-{:016x}.json", self.prop, sub, hash_json(&doc)));
        let _ = std::fs::write(&path, serde_json::to_string_pretty(&doc).unwrap());
        self.inconclusive(format!(
            "watchdog: a case of sub-check {} did not finish within {} s (hang or extreme slowness of the code under test); the case is saved at {}",
            sub,
            self.case_timeout().as_secs(),
            path.display()
        ));
        let code = self.finish();
        std::process::exit(code);
    }

    /// Evaluate a fixed list of cases in parallel.
    pub fn run_fixed<C: Check>(&self, check: &C, cases: Vec<C::Case>) {
        let sub = check.name();
        let next = AtomicUsize::new(0);
        let cases = &cases;
        let workers = self.jobs.min(cases.len().max(1));
        let slots: Vec<Mutex<Option<(Instant, usize)>>> = (0..workers).map(|_| Mutex::new(None)).collect();
        let live = AtomicUsize::new(workers);
        std::thread::scope(|s| {
            for w in 0..workers {
                let slots = &slots;
                let live = &live;
                let next = &next;
                s.spawn(move || {
                    let mut acc = Acc::new();
                    loop {
                        let i = next.fetch_add(1, Ordering::Relaxed);
                        if i >= cases.len() {
                            break;
                        }
                        let case = &cases[i];
                        *slots[w].lock().unwrap() = Some((Instant::now(), i));
                        let verdict = guarded_eval(check, case);
                        *slots[w].lock().unwrap() = None;
                        match verdict {
                            Verdict::Pass(info) => acc.pass(case, info),
                            Verdict::Fail { sig, msg } => {
                                let v = serde_json::to_value(case).unwrap_or(Value::Null);
                                self.handle_fail(sub, &v, &sig, &msg, Some(&mut acc));
                            }
                        }
                    }
                    self.merge_acc(sub, acc);
                    live.fetch_sub(1, Ordering::SeqCst);
                });
            }
            // monitor
            let limit = self.case_timeout() * 2; // fixed cases are whole statistical cells (incl. a 4x confirmation)
            while live.load(Ordering::SeqCst) > 0 {
                std::thread::sleep(std::time::Duration::from_millis(200));
                for sl in slots.iter() {
                    let g = sl.lock().unwrap();
                    if let Some((t0, i)) = *g {
                        if t0.elapsed() > limit {
                            let v = serde_json::to_value(&cases[i]).unwrap_or(Value::Null);
                            drop(g);
                            self.hang(sub, v);
                        }
                    }
                }
            }
        });
    }

    /// Drive `check` with `cases` generated cases (split over workers), shrinking failures.
    pub fn run_random<C, F>(&self, check: &C, cases: u64, mk: F)
    where
        C: Check,
        F: Fn() -> BoxedStrategy<C::Case> + Sync,
    {
        let sub = check.name();
        let jobs = self.jobs.max(1) as u64;
        let stop = AtomicBool::new(false);
        let executed = AtomicU64::new(0);
        let slots: Vec<Mutex<Option<(Instant, C::Case)>>> = (0..jobs).map(|_| Mutex::new(None)).collect();
        // latest failing case seen by each worker (kept up to date while proptest shrinks), so that a
        // failure is not lost if a shrink candidate hangs
        let pending: Vec<Mutex<Option<(Value, String, String)>>> = (0..jobs).map(|_| Mutex::new(None)).collect();
        let live = AtomicUsize::new(0);
        std::thread::scope(|s| {
            for w in 0..jobs {
                let per = cases / jobs + if w < cases % jobs { 1 } else { 0 };
                if per == 0 {
                    continue;
                }
                let stop = &stop;
                let executed = &executed;
                let mk = &mk;
                let slots = &slots;
                let pending = &pending;
                let live = &live;
                live.fetch_add(1, Ordering::SeqCst);
                s.spawn(move || {
                    let seed = self.sub_seed(sub, w);
                    let mut seed_bytes = [0u8; 32];
                    for (i, chunk) in seed_bytes.chunks_mut(8).enumerate() {
                        chunk.copy_from_slice(&mix(seed, i as u64).to_le_bytes());
                    }
                    let cfg = Config {
                        cases: per as u32,
                        failure_persistence: None,
                        rng_algorithm: RngAlgorithm::ChaCha,
                        rng_seed: RngSeed::Fixed(seed),
                        max_shrink_iters: 4000,
                        max_global_rejects: 1_000_000,
                        max_local_rejects: 1_000_000,
                        verbose: 0,
                        ..Config::default()
                    };
                    let _ = seed_bytes;
                    let mut runner = TestRunner::new(cfg);
                    let strat = mk();
                    let acc = std::cell::RefCell::new(Acc::new());
                    let failing = std::cell::Cell::new(false);
                    let last_fail: std::cell::RefCell<Option<(String, String)>> = std::cell::RefCell::new(None);
                    let res = runner.run(&strat, |case| {
                        if !failing.get() && stop.load(Ordering::Relaxed) {
                            return Ok(());
                        }
                        *slots[w as usize].lock().unwrap() = Some((Instant::now(), case.clone()));
                        let verdict = guarded_eval(check, &case);
                        *slots[w as usize].lock().unwrap() = None;
                        match verdict {
                            Verdict::Pass(info) => {
                                if !failing.get() {
                                    executed.fetch_add(1, Ordering::Relaxed);
                                    acc.borrow_mut().pass(&case, info);
                                }
                                Ok(())
                            }
                            Verdict::Fail { sig, msg } => {
                                if !self.strict_known && self.known.lookup(&self.prop, &sig).is_some() {
                                    if !failing.get() {
                                        let v = serde_json::to_value(&case).unwrap_or(Value::Null);
                                        self.handle_fail(sub, &v, &sig, &msg, Some(&mut acc.borrow_mut()));
                                    }
                                    return Ok(());
                                }
                                failing.set(true);
                                stop.store(true, Ordering::Relaxed);
                                *last_fail.borrow_mut() = Some((sig.clone(), msg.clone()));
                                *pending[w as usize].lock().unwrap() = Some((serde_json::to_value(&case).unwrap_or(Value::Null), sig.clone(), msg.clone()));
                                Err(TestCaseError::fail(format!("{}|{}", sig, msg)))
                            }
                        }
                    });
                    match res {
                        Ok(()) => {}
                        Err(TestError::Fail(_reason, value)) => {
                            // re-evaluate the shrunk value to get its own signature/message
                            let (sig, msg) = match guarded_eval(check, &value) {
                                Verdict::Fail { sig, msg } => (sig, msg),
                                Verdict::Pass(_) => last_fail
                                    .borrow()
                                    .clone()
                                    .unwrap_or(("flaky".into(), "shrunk value passes on re-evaluation".into())),
                            };
                            let v = serde_json::to_value(&value).unwrap_or(Value::Null);
                            *pending[w as usize].lock().unwrap() = None;
                            self.handle_fail(sub, &v, &sig, &msg, None);
                        }
                        Err(TestError::Abort(why)) => {
                            self.inconclusive(format!("{}: proptest aborted: {}", sub, why));
                        }
                    }
                    self.merge_acc(sub, acc.into_inner());
                    live.fetch_sub(1, Ordering::SeqCst);
                });
            }
            // monitor: a single generated case must not run forever. A worker stuck in a hanging case
            // is abandoned (its case is saved); the other workers finish their budget so that
            // violations they find are still reported; then the process exits (2, or 1 with violations).
            let limit = self.case_timeout();
            let mut abandoned = vec![false; slots.len()];
            let mut stuck = 0usize;
            loop {
                if live.load(Ordering::SeqCst) <= stuck {
                    break;
                }
                std::thread::sleep(std::time::Duration::from_millis(200));
                for (w, sl) in slots.iter().enumerate() {
                    if abandoned[w] {
                        continue;
                    }
                    let g = sl.lock().unwrap();
                    if let Some((t0, case)) = &*g {
                        if t0.elapsed() > limit {
                            let v = serde_json::to_value(case).unwrap_or(Value::Null);
                            drop(g);
                            abandoned[w] = true;
                            stuck += 1;
                            self.save_hang(sub, v);
                            if let Some((case, sig, msg)) = pending[w].lock().unwrap().take() {
                                self.handle_fail(sub, &case, &sig, &format!("{} [not fully shrunk: a shrink candidate hung]", msg), None);
                            }
                        }
                    }
                }
            }
            if stuck > 0 {
                let code = self.finish();
                std::process::exit(code);
            }
        });
    }

    /// Generic parallel loop for custom enumerators: `f(index, acc)` for index in 0..n.
    /// `f` returns Some((case, sig, msg)) on violation.
    pub fn run_indexed<F>(&self, sub: &'static str, n: usize, f: F)
    where
        F: Fn(usize, &mut Acc) -> Option<(Value, String, String)> + Sync,
    {
        let next = AtomicUsize::new(0);
        let workers = self.jobs.min(n.max(1));
        let slots: Vec<Mutex<Option<(Instant, usize)>>> = (0..workers).map(|_| Mutex::new(None)).collect();
        let live = AtomicUsize::new(workers);
        std::thread::scope(|s| {
            for w in 0..workers {
                let slots = &slots;
                let live = &live;
                let next = &next;
                let f = &f;
                s.spawn(move || {
                    let mut acc = Acc::new();
                    loop {
                        let i = next.fetch_add(1, Ordering::Relaxed);
                        if i >= n {
                            break;
                        }
                        *slots[w].lock().unwrap() = Some((Instant::now(), i));
                        let r = match catch(|| f(i, &mut acc)) {
                            Ok(r) => r,
                            Err(p) => Some((json!({"index": i}), panic_sig(&p), format!("panic: {}", p))),
                        };
                        *slots[w].lock().unwrap() = None;
                        if let Some((case, sig, msg)) = r {
                            self.handle_fail(sub, &case, &sig, &msg, Some(&mut acc));
                        }
                    }
                    self.merge_acc(sub, acc);
                    live.fetch_sub(1, Ordering::SeqCst);
                });
            }
            let limit = self.case_timeout(); // an index stands for one enumeration slice (seconds at most)
            while live.load(Ordering::SeqCst) > 0 {
                std::thread::sleep(std::time::Duration::from_millis(200));
                for sl in slots.iter() {
                    let g = sl.lock().unwrap();
                    if let Some((t0, i)) = *g {
                        if t0.elapsed() > limit {
                            drop(g);
                            self.hang(sub, json!({"enumeration_index": i}));
                        }
                    }
                }
            }
        });
    }

    /// Replay committed regression files for this property through `checks`.
    pub fn run_regressions(&self, checks: &[&dyn DynCheck]) {
        let dir = verif_dir().join("regressions").join(&self.prop);
        let mut files: Vec<_> = match std::fs::read_dir(&dir) {
            Ok(rd) => rd.filter_map(|e| e.ok()).map(|e| e.path()).collect(),
            Err(_) => return,
        };
        files.sort();
        let mut acc = Acc::new();
        for f in files {
            if f.extension().map(|e| e != "json").unwrap_or(true) {
                continue;
            }
            let txt = match std::fs::read_to_string(&f) {
                Ok(t) => t,
                Err(_) => continue,
            };
            let doc: Value = match serde_json::from_str(&txt) {
                Ok(v) => v,
                Err(e) => {
                    self.inconclusive(format!("regression file {:?} unreadable: {}", f, e));
                    continue;
                }
            };
            let sub = doc["sub"].as_str().unwrap_or("");
            let Some(check) = checks.iter().find(|c| c.dyn_name() == sub) else {
                self.inconclusive(format!("regression file {:?}: unknown sub {:?}", f, sub));
                continue;
            };
            match check.eval_json(&doc["case"]) {
                Ok(Verdict::Pass(info)) => {
                    acc.inner.cases += 1;
                    acc.inner.evaluations += 1 + info.inner_evals;
                    *acc.inner.classes.entry("regression_replayed").or_insert(0) += 1;
                }
                Ok(Verdict::Fail { sig, msg }) => {
                    let m = format!("regression {:?} fails again: {}", f.file_name().unwrap(), msg);
                    self.handle_fail(sub, &doc["case"], &sig, &m, Some(&mut acc));
                }
                Err(e) => self.inconclusive(format!("regression file {:?}: {}", f, e)),
            }
        }
        if acc.inner.cases > 0 {
            self.merge_acc("regressions", acc);
        }
    }

    /// Generator health: require that `class` was seen in at least `min_frac` of the cases of `sub`.
    pub fn require_class(&self, sub: &str, class: &'static str, min_frac: f64) {
        if self.failed() {
            return;
        }
        let subs = self.subs.lock().unwrap();
        if let Some(a) = subs.get(sub) {
            let c = *a.classes.get(class).unwrap_or(&0) as f64;
            let n = a.cases.max(1) as f64;
            if c / n < min_frac {
                self.degenerate.lock().unwrap().push(format!(
                    "{}: class {:?} seen in {:.4} of cases (< floor {})",
                    sub,
                    class,
                    c / n,
                    min_frac
                ));
            }
        }
    }

    /// Write evidence and return the exit code.
    pub fn finish(&self) -> i32 {
        let wall = self.start.elapsed().as_secs_f64();
        let subs = self.subs.lock().unwrap();
        let order = self.sub_order.lock().unwrap();
        let mut evaluations = 0u64;
        let mut all_keys: HashSet<u64> = HashSet::new();
        let mut samples: Vec<Value> = vec![];
        let mut per_sub = serde_json::Map::new();
        let mut any_exh = false;
        let mut by_construction = 0u64;
        for name in order.iter() {
            let a = &subs[name];
            evaluations += a.evaluations;
            by_construction += a.distinct_by_construction;
            for k in &a.keys {
                all_keys.insert(mix_str(*k, name));
            }
            for s in a.samples_trivial.iter() {
                samples.push(json!({"sub": name, "nontrivial": false, "case": s}));
            }
            for s in a.samples_nontrivial.iter() {
                samples.push(json!({"sub": name, "nontrivial": true, "case": s}));
            }
            let mut o = serde_json::Map::new();
            o.insert("cases".into(), json!(a.cases));
            o.insert("evaluations".into(), json!(a.evaluations));
            o.insert("nontrivial_cases".into(), json!(a.nontrivial_cases));
            o.insert("distinct_nontrivial".into(), json!(a.keys.len() as u64 + a.distinct_by_construction));
            o.insert("classes".into(), json!(a.classes));
            if !a.known_hits.is_empty() {
                o.insert("known_findings_hit".into(), json!(a.known_hits));
            }
            if let Some(e) = &a.exhaustive {
                o.insert("exhaustive".into(), json!(true));
                o.insert("space".into(), json!(e));
                any_exh = true;
            }
            if !a.details.is_empty() {
                o.insert("cells".into(), Value::Array(a.details.clone()));
            }
            if !a.notes.is_empty() {
                o.insert("notes".into(), json!(a.notes));
            }
            per_sub.insert(name.clone(), Value::Object(o));
        }
        let failures = self.failures.lock().unwrap();
        let degenerate = self.degenerate.lock().unwrap();
        let inconclusive = self.inconclusive.lock().unwrap();
        let mut coverage = serde_json::Map::new();
        coverage.insert("evaluations".into(), json!(evaluations));
        coverage.insert("distinct_nontrivial".into(), json!(all_keys.len() as u64 + by_construction));
        coverage.insert("rule".into(), json!(*self.rule.lock().unwrap()));
        coverage.insert("samples".into(), Value::Array(samples));
        coverage.insert("sub_checks".into(), Value::Object(per_sub));
        coverage.insert(
            "exhaustive".into(),
            json!(false),
        );
        if any_exh {
            coverage.insert(
                "exhaustive_note".into(),
                json!("sub-checks marked exhaustive enumerated their stated finite space completely; the property as a whole is sampled"),
            );
        }
        for (k, v) in self.extra.lock().unwrap().iter() {
            coverage.insert(k.clone(), v.clone());
        }
        if !failures.is_empty() {
            coverage.insert(
                "violation_replays".into(),
                json!(failures.iter().map(|f| json!({"sub": f.sub, "signature": f.sig, "replay": f.replay_path})).collect::<Vec<_>>()),
            );
        }
        if !degenerate.is_empty() {
            coverage.insert("generator_degenerate".into(), json!(*degenerate));
        }
        if !inconclusive.is_empty() {
            coverage.insert("inconclusive".into(), json!(*inconclusive));
        }
        let ev = json!({
            "property_id": self.prop,
            "tier": self.tier.name(),
            "seed": self.seed,
            "level": "exploration",
            "coverage": Value::Object(coverage),
            "assumptions": *self.assumptions.lock().unwrap(),
            "wall_s": (wall * 1000.0).round() / 1000.0,
            "violations": failures.len(),
        });
        let dir = verif_dir().join("evidence");
        let _ = std::fs::create_dir_all(&dir);
        let path = dir.join(format!("{}.json", self.prop));
        if let Err(e) = std::fs::write(&path, serde_json::to_string_pretty(&ev).unwrap() + "\n") {
            eprintln!("cannot write evidence {:?}: {}", path, e);
            return 2;
        }
        let code = if !failures.is_empty() {
            1
        } else if !degenerate.is_empty() || !inconclusive.is_empty() {
            for d in degenerate.iter() {
                println!("INCONCLUSIVE generator degenerate: {}", d);
            }
            for d in inconclusive.iter() {
                println!("INCONCLUSIVE {}", d);
            }
            2
        } else {
            0
        };
        println!(
            "{} {} seed={} evaluations={} distinct_nontrivial={} violations={} wall={:.1}s exit={}",
            self.prop,
            self.tier.name(),
            self.seed,
            evaluations,
            all_keys.len() as u64 + by_construction,
            failures.len(),
            wall,
            code
        );
        code
    }
}

pub fn verif_dir() -> std::path::PathBuf {
    std::env::var("VERIF_DIR")
        .map(std::path::PathBuf::from)
        .unwrap_or_else(|_| std::path::PathBuf::from("/verif"))
}

pub fn out_dir() -> std::path::PathBuf {
    verif_dir().join("out")
}

/// Convenience: map a 16-bit index monotonically onto 0..len (shrinks towards 0).
pub fn idx(i: u16, len: usize) -> usize {
    if len == 0 {
        0
    } else {
        ((i as usize) * len) >> 16
    }
}

pub fn boxed<S: Strategy + 'static>(s: S) -> BoxedStrategy<S::Value> {
    s.boxed()
}
