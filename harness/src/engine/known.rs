//! known_findings.json: committed, never written at run time.
//! Entries: {property, status: "known"|"fixed", signature, what, commit?, ceiling?}
use serde::Deserialize;

#[derive(Clone, Debug, Deserialize)]
pub struct Entry {
    pub property: String,
    pub status: String,
    pub signature: String,
    pub what: String,
    #[serde(default)]
    pub commit: Option<String>,
    #[serde(default)]
    pub ceiling: Option<f64>,
    #[serde(default)]
    pub line: Option<String>,
    #[serde(default)]
    pub regression: Option<String>,
}

#[derive(Default)]
pub struct Known {
    pub entries: Vec<Entry>,
}

impl Known {
    pub fn load() -> Self {
        let p = super::verif_dir().join("known_findings.json");
        match std::fs::read_to_string(&p) {
            Ok(t) => match serde_json::from_str::<Vec<Entry>>(&t) {
                Ok(entries) => Known { entries },
                Err(e) => {
                    eprintln!("known_findings.json unreadable: {}", e);
                    Known::default()
                }
            },
            Err(_) => Known::default(),
        }
    }
    /// Only entries with status "known" suppress; "fixed" entries suppress nothing.
    pub fn lookup(&self, prop: &str, sig: &str) -> Option<&Entry> {
        self.entries
            .iter()
            .find(|e| e.status == "known" && e.property == prop && e.signature == sig)
    }
}
