//! Statistical acceptance tests: per-seed aggregation, one-sided z tests, confirmation.

pub const Z: f64 = 6.0;

#[derive(Clone, Copy, Debug)]
pub struct Summary {
    pub n: usize,
    pub mean: f64,
    pub sd: f64,
    pub se: f64,
}

pub fn summarize(xs: &[f64]) -> Summary {
    let n = xs.len();
    if n == 0 {
        return Summary { n: 0, mean: 0.0, sd: 0.0, se: f64::INFINITY };
    }
    let mean = xs.iter().sum::<f64>() / n as f64;
    let var = if n > 1 {
        xs.iter().map(|x| (x - mean) * (x - mean)).sum::<f64>() / (n as f64 - 1.0)
    } else {
        f64::INFINITY
    };
    let sd = var.sqrt();
    Summary { n, mean, sd, se: sd / (n as f64).sqrt() }
}

/// true iff the mean of the per-seed values is significantly (z) above `bound`.
pub fn mean_above(xs: &[f64], bound: f64, z: f64) -> bool {
    let s = summarize(xs);
    s.mean - z * s.se > bound
}

/// true iff the mean is significantly below `bound`.
pub fn mean_below(xs: &[f64], bound: f64, z: f64) -> bool {
    let s = summarize(xs);
    s.mean + z * s.se < bound
}

/// Binomial one-sided: is `hits` out of `n` significantly above probability `p`?
/// Uses the normal approximation with variance at the bound plus a continuity/rare-event guard
/// (requires an excess of at least 4 events so that tiny expectations cannot alarm).
pub fn binom_above(hits: u64, n: u64, p: f64, z: f64) -> bool {
    let exp = n as f64 * p;
    let sd = (n as f64 * p * (1.0 - p)).max(0.0).sqrt();
    (hits as f64) > exp + z * sd + 4.0
}

pub fn binom_below(hits: u64, n: u64, p: f64, z: f64) -> bool {
    let exp = n as f64 * p;
    let sd = (n as f64 * p * (1.0 - p)).max(0.0).sqrt();
    (hits as f64) < exp - z * sd - 4.0
}

/// SplitMix64 – the simulation PRNG (seeded only from generated / derived seeds).
#[derive(Clone, Debug)]
pub struct SplitMix64(pub u64);

impl SplitMix64 {
    #[inline]
    pub fn next(&mut self) -> u64 {
        self.0 = self.0.wrapping_add(0x9E37_79B9_7F4A_7C15);
        let mut z = self.0;
        z = (z ^ (z >> 30)).wrapping_mul(0xBF58_476D_1CE4_E5B9);
        z = (z ^ (z >> 27)).wrapping_mul(0x94D0_49BB_1331_11EB);
        z ^ (z >> 31)
    }
    #[inline]
    pub fn f64(&mut self) -> f64 {
        (self.next() >> 11) as f64 / (1u64 << 53) as f64
    }
    #[inline]
    pub fn below(&mut self, n: u64) -> u64 {
        // multiply-shift; bias negligible for simulation purposes (n << 2^64)
        ((self.next() as u128 * n as u128) >> 64) as u64
    }
    pub fn normal(&mut self) -> f64 {
        let u1 = 1.0 - self.f64();
        let u2 = self.f64();
        (-2.0 * u1.ln()).sqrt() * (2.0 * std::f64::consts::PI * u2).cos()
    }
}
