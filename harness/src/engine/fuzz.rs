//! Thorough tier only: drive a cargo-fuzz / libFuzzer target with fixed -runs / -seed over a fresh
//! corpus directory seeded from committed golden inputs; convert crash artifacts into violations.
use super::{verif_dir, Ctx};
use std::path::PathBuf;
use std::process::Command;

pub struct FuzzOutcome {
    pub executed: u64,
    pub artifacts: Vec<PathBuf>,
    pub note: String,
}

pub fn run_libfuzzer(ctx: &Ctx, target: &str, runs: u64, max_len: u32) -> Option<FuzzOutcome> {
    let harness = verif_dir().join("harness");
    let out = super::out_dir().join("fuzz");
    let seeds = harness.join("fuzz").join("seeds").join(target);
    // libFuzzer is single-threaded: run several independent campaigns (different -seed, own corpus
    // and artifact directories) side by side and add up their executions
    let workers = ctx.jobs.clamp(1, 8) as u64;
    let per = (runs / workers).max(1);
    let results: Vec<Option<(u64, Vec<PathBuf>, String)>> = std::thread::scope(|sc| {
        let handles: Vec<_> = (0..workers)
            .map(|w| {
                let harness = &harness;
                let out = &out;
                let seeds = &seeds;
                sc.spawn(move || {
                    let corpus = out.join(format!("{}-corpus-{}", target, w));
                    let art = out.join(format!("{}-artifacts-{}", target, w));
                    let _ = std::fs::remove_dir_all(&corpus);
                    let _ = std::fs::remove_dir_all(&art);
                    std::fs::create_dir_all(&corpus).ok()?;
                    std::fs::create_dir_all(&art).ok()?;
                    if let Ok(rd) = std::fs::read_dir(seeds) {
                        for e in rd.flatten() {
                            let _ = std::fs::copy(e.path(), corpus.join(e.file_name()));
                        }
                    }
                    let seed = ((ctx.seed.wrapping_mul(31).wrapping_add(w)) % 2_000_000_000) as u32 + 1; // 0 means random
                    let res = Command::new("cargo")
                        .current_dir(harness)
                        .env("CARGO_NET_OFFLINE", "true")
                        .args(["+nightly", "fuzz", "run", "-s", "none", target])
                        .arg(&corpus)
                        .arg("--")
                        .arg(format!("-runs={}", per))
                        .arg(format!("-seed={}", seed))
                        .arg(format!("-max_len={}", max_len))
                        .arg("-len_control=0")
                        .arg("-print_final_stats=1")
                        .arg("-timeout=120")
                        .arg(format!("-artifact_prefix={}/", art.display()))
                        .output()
                        .ok()?;
                    let stderr = String::from_utf8_lossy(&res.stderr).to_string();
                    let executed = stderr
                        .lines()
                        .filter_map(|l| l.strip_prefix("stat::number_of_executed_units:"))
                        .filter_map(|v| v.trim().parse::<u64>().ok())
                        .last()
                        .unwrap_or(0);
                    let mut artifacts = vec![];
                    if let Ok(rd) = std::fs::read_dir(&art) {
                        for e in rd.flatten() {
                            artifacts.push(e.path());
                        }
                    }
                    let tail: String = stderr.lines().rev().take(4).collect::<Vec<_>>().join(" | ");
                    Some((executed, artifacts, tail))
                })
            })
            .collect();
        handles.into_iter().map(|h| h.join().ok().flatten()).collect()
    });
    let mut executed = 0u64;
    let mut artifacts = vec![];
    let mut tails = vec![];
    for r in results.into_iter().flatten() {
        executed += r.0;
        artifacts.extend(r.1);
        tails.push(r.2);
    }
    if executed == 0 && artifacts.is_empty() {
        ctx.note(&format!("libfuzzer_{}", target), format!("libFuzzer campaign produced no statistics (target not built / tool missing?): {}", tails.join(" || ")));
        return None;
    }
    let n_art = artifacts.len();
    Some(FuzzOutcome { executed, artifacts, note: format!("libFuzzer target {} ({} parallel campaigns, -runs={} each, -max_len={}, no sanitizer: the library forbids unsafe code): executed {} units, {} artifact(s)", target, workers, per, max_len, executed, n_art) })
}

/// Run the structured `filter_ops` target and report artifacts that decode to a case of the
/// given property (`which`: 0 = C12, 1 = C13, 2 = C14, 3 = C01) through that property's own oracle.
pub fn run_filter_ops(ctx: &Ctx, which: u8, runs: u64) {
    use crate::engine::{guarded_eval, Verdict};
    use crate::props::{c01, c12, c13, c14, fuzzdecode};
    use arbitrary::Unstructured;
    let Some(o) = run_libfuzzer(ctx, "filter_ops", runs, 1024) else { return };
    ctx.add_evaluations(
        "libfuzzer_filter_ops",
        o.executed,
        serde_json::json!({"engine": "libFuzzer", "target": "filter_ops (bytes decoded into C12/C13/C14/C01 cases)", "executed_units": o.executed, "corpus_seeded_from": "harness/fuzz/seeds/filter_ops"}),
    );
    ctx.note("libfuzzer_filter_ops", o.note.clone());
    for a in &o.artifacts {
        let Ok(bytes) = std::fs::read(a) else { continue };
        let mut u = Unstructured::new(&bytes);
        let Ok(w) = u.int_in_range(0u8..=3) else { continue };
        let (sub, case, verdict): (&str, serde_json::Value, Verdict) = match w {
            0 => match fuzzdecode::c12(&mut u) {
                Ok(c) => ("failing_calls", serde_json::to_value(&c).unwrap(), guarded_eval(&c12::C12, &c)),
                Err(_) => continue,
            },
            1 => match fuzzdecode::c13(&mut u) {
                Ok(c) => ("random_history", serde_json::to_value(&c).unwrap(), guarded_eval(&c13::Random, &c)),
                Err(_) => continue,
            },
            2 => match fuzzdecode::c14(&mut u) {
                Ok(c) => ("random_history", serde_json::to_value(&c).unwrap(), guarded_eval(&c14::Random, &c)),
                Err(_) => continue,
            },
            _ => match fuzzdecode::c01(&mut u) {
                Ok(c) => ("history", serde_json::to_value(&c).unwrap(), guarded_eval(&c01::C01, &c)),
                Err(_) => continue,
            },
        };
        if let Verdict::Fail { sig, msg } = verdict {
            if w == which {
                ctx.handle_fail(sub, &case, &sig, &format!("libFuzzer artifact {:?}: {}", a.file_name().unwrap(), msg), None);
            } else {
                ctx.note("libfuzzer_filter_ops", format!("artifact {:?} violates the oracle of another property (target index {}): {} — run that property's check", a.file_name().unwrap(), w, sig));
            }
        }
    }
}

/// Run the structured `tdigest_ops` target and report artifacts that decode to a case of the given
/// property (`which`: 0 = C15, 1 = C16) through that property's own oracle.
pub fn run_tdigest_ops(ctx: &Ctx, which: u8, runs: u64) {
    use crate::engine::{guarded_eval, Verdict};
    use crate::props::{c15, c16, fuzzdecode};
    use arbitrary::Unstructured;
    let Some(o) = run_libfuzzer(ctx, "tdigest_ops", runs, 2048) else { return };
    ctx.add_evaluations(
        "libfuzzer_tdigest_ops",
        o.executed,
        serde_json::json!({"engine": "libFuzzer", "target": "tdigest_ops (bytes decoded into C15/C16 cases)", "executed_units": o.executed, "corpus_seeded_from": "harness/fuzz/seeds/tdigest_ops"}),
    );
    ctx.note("libfuzzer_tdigest_ops", o.note.clone());
    for a in &o.artifacts {
        let Ok(bytes) = std::fs::read(a) else { continue };
        let mut u = Unstructured::new(&bytes);
        let Ok(w) = u.int_in_range(0u8..=1) else { continue };
        let (sub, case, verdict): (&str, serde_json::Value, Verdict) = match w {
            0 => match fuzzdecode::c15(&mut u) {
                Ok(c) => ("shape", serde_json::to_value(&c).unwrap(), guarded_eval(&c15::C15, &c)),
                Err(_) => continue,
            },
            _ => match fuzzdecode::c16(&mut u) {
                Ok(c) => ("aggregates", serde_json::to_value(&c).unwrap(), guarded_eval(&c16::C16, &c)),
                Err(_) => continue,
            },
        };
        if let Verdict::Fail { sig, msg } = verdict {
            if w == which {
                ctx.handle_fail(sub, &case, &sig, &format!("libFuzzer artifact {:?}: {}", a.file_name().unwrap(), msg), None);
            } else {
                ctx.note("libfuzzer_tdigest_ops", format!("artifact {:?} violates the oracle of another property (target index {}): {} — run that property's check", a.file_name().unwrap(), w, sig));
            }
        }
    }
}

/// Run the structured `sketch_ops` target and report artifacts that decode to a case of the given
/// property (`which`: 0 = C02, 1 = C09, 2 = C10) through that property's own oracle.
pub fn run_sketch_ops(ctx: &Ctx, which: u8, runs: u64) {
    use crate::engine::{guarded_eval, Verdict};
    use crate::props::{c02, c09, c10, fuzzdecode};
    use arbitrary::Unstructured;
    let Some(o) = run_libfuzzer(ctx, "sketch_ops", runs, 1024) else { return };
    ctx.add_evaluations(
        "libfuzzer_sketch_ops",
        o.executed,
        serde_json::json!({"engine": "libFuzzer", "target": "sketch_ops (bytes decoded into C02/C09/C10 cases)", "executed_units": o.executed, "corpus_seeded_from": "harness/fuzz/seeds/sketch_ops"}),
    );
    ctx.note("libfuzzer_sketch_ops", o.note.clone());
    for a in &o.artifacts {
        let Ok(bytes) = std::fs::read(a) else { continue };
        let mut u = Unstructured::new(&bytes);
        let Ok(w) = u.int_in_range(0u8..=2) else { continue };
        let (sub, case, verdict): (&str, serde_json::Value, Verdict) = match w {
            0 => match fuzzdecode::c02(&mut u) {
                Ok(c) => (crate::engine::Check::name(&c02::C02), serde_json::to_value(&c).unwrap(), guarded_eval(&c02::C02, &c)),
                Err(_) => continue,
            },
            1 => match fuzzdecode::c09(&mut u) {
                Ok(c) => (crate::engine::Check::name(&c09::C09), serde_json::to_value(&c).unwrap(), guarded_eval(&c09::C09, &c)),
                Err(_) => continue,
            },
            _ => match fuzzdecode::c10(&mut u) {
                Ok(c) => (crate::engine::Check::name(&c10::C10), serde_json::to_value(&c).unwrap(), guarded_eval(&c10::C10, &c)),
                Err(_) => continue,
            },
        };
        if let Verdict::Fail { sig, msg } = verdict {
            if w == which {
                ctx.handle_fail(sub, &case, &sig, &format!("libFuzzer artifact {:?}: {}", a.file_name().unwrap(), msg), None);
            } else {
                ctx.note("libfuzzer_sketch_ops", format!("artifact {:?} violates the oracle of another property (target index {}): {} — run that property's check", a.file_name().unwrap(), w, sig));
            }
        }
    }
}
