//! Thorough tier only: drive a cargo-fuzz / libFuzzer target with fixed -runs / -seed over a fresh
//! corpus directory seeded from committed golden inputs; convert crash artifacts into violations.
use super::{verif_dir, Ctx};
use std::path::PathBuf;
use std::process::Command;

pub struct FuzzOutcome {
    pub executed: u64,
    pub artifacts: Vec<PathBuf>,
    pub note: String,
}

pub fn run_libfuzzer(ctx: &Ctx, target: &str, runs: u64, max_len: u32) -> Option<FuzzOutcome> {
    let harness = verif_dir().join("harness");
    let out = super::out_dir().join("fuzz");
    let corpus = out.join(format!("{}-corpus", target));
    let art = out.join(format!("{}-artifacts", target));
    let _ = std::fs::remove_dir_all(&corpus);
    let _ = std::fs::remove_dir_all(&art);
    std::fs::create_dir_all(&corpus).ok()?;
    std::fs::create_dir_all(&art).ok()?;
    let seeds = harness.join("fuzz").join("seeds").join(target);
    if let Ok(rd) = std::fs::read_dir(&seeds) {
        for e in rd.flatten() {
            let _ = std::fs::copy(e.path(), corpus.join(e.file_name()));
        }
    }
    let seed = (ctx.seed % 2_000_000_000) as u32 + 1; // libFuzzer: 0 means random
    let res = Command::new("cargo")
        .current_dir(&harness)
        .env("CARGO_NET_OFFLINE", "true")
        .args(["+nightly", "fuzz", "run", target])
        .arg(&corpus)
        .arg("--")
        .arg(format!("-runs={}", runs))
        .arg(format!("-seed={}", seed))
        .arg(format!("-max_len={}", max_len))
        .arg("-len_control=0")
        .arg("-print_final_stats=1")
        .arg("-timeout=60")
        .arg(format!("-artifact_prefix={}/", art.display()))
        .output();
    let outp = match res {
        Ok(o) => o,
        Err(e) => {
            ctx.note(&format!("libfuzzer_{}", target), format!("cargo fuzz could not be started: {}", e));
            return None;
        }
    };
    let stderr = String::from_utf8_lossy(&outp.stderr).to_string();
    let executed = stderr
        .lines()
        .filter_map(|l| l.strip_prefix("stat::number_of_executed_units:"))
        .filter_map(|v| v.trim().parse::<u64>().ok())
        .last()
        .unwrap_or(0);
    let mut artifacts = vec![];
    if let Ok(rd) = std::fs::read_dir(&art) {
        for e in rd.flatten() {
            artifacts.push(e.path());
        }
    }
    if executed == 0 && artifacts.is_empty() {
        let tail: String = stderr.lines().rev().take(6).collect::<Vec<_>>().join(" | ");
        ctx.note(&format!("libfuzzer_{}", target), format!("libFuzzer campaign produced no statistics (target not built / tool missing?): {}", tail));
        return None;
    }
    Some(FuzzOutcome { executed, artifacts, note: format!("libFuzzer target {} -runs={} -seed={} -max_len={}: executed {} units, {} artifact(s)", target, runs, seed, max_len, executed, 0) })
}

/// Run the structured `filter_ops` target and report artifacts that decode to a case of the
/// given property (`which`: 0 = C12, 1 = C13, 2 = C14) through that property's own oracle.
pub fn run_filter_ops(ctx: &Ctx, which: u8, runs: u64) {
    use crate::engine::{guarded_eval, Verdict};
    use crate::props::{c12, c13, c14, fuzzdecode};
    use arbitrary::Unstructured;
    let Some(o) = run_libfuzzer(ctx, "filter_ops", runs, 1024) else { return };
    ctx.add_evaluations(
        "libfuzzer_filter_ops",
        o.executed,
        serde_json::json!({"engine": "libFuzzer", "target": "filter_ops (bytes decoded into C12/C13/C14 cases)", "executed_units": o.executed, "corpus_seeded_from": "harness/fuzz/seeds/filter_ops"}),
    );
    ctx.note("libfuzzer_filter_ops", o.note.clone());
    for a in &o.artifacts {
        let Ok(bytes) = std::fs::read(a) else { continue };
        let mut u = Unstructured::new(&bytes);
        let Ok(w) = u.int_in_range(0u8..=2) else { continue };
        let (sub, case, verdict): (&str, serde_json::Value, Verdict) = match w {
            0 => match fuzzdecode::c12(&mut u) {
                Ok(c) => ("failing_calls", serde_json::to_value(&c).unwrap(), guarded_eval(&c12::C12, &c)),
                Err(_) => continue,
            },
            1 => match fuzzdecode::c13(&mut u) {
                Ok(c) => ("random_history", serde_json::to_value(&c).unwrap(), guarded_eval(&c13::Random, &c)),
                Err(_) => continue,
            },
            _ => match fuzzdecode::c14(&mut u) {
                Ok(c) => ("random_history", serde_json::to_value(&c).unwrap(), guarded_eval(&c14::Random, &c)),
                Err(_) => continue,
            },
        };
        if let Verdict::Fail { sig, msg } = verdict {
            if w == which {
                ctx.handle_fail(sub, &case, &sig, &format!("libFuzzer artifact {:?}: {}", a.file_name().unwrap(), msg), None);
            } else {
                ctx.note("libfuzzer_filter_ops", format!("artifact {:?} violates the oracle of another property (target index {}): {} — run that property's check", a.file_name().unwrap(), w, sig));
            }
        }
    }
}
