//! Counting global allocator (DESIGN §3.5): per-thread live/peak byte counters.
use std::alloc::{GlobalAlloc, Layout, System};
use std::cell::Cell;

thread_local! {
    static LIVE: Cell<isize> = const { Cell::new(0) };
    static PEAK: Cell<isize> = const { Cell::new(0) };
}

pub struct Counting;

unsafe impl GlobalAlloc for Counting {
    unsafe fn alloc(&self, l: Layout) -> *mut u8 {
        let p = System.alloc(l);
        if !p.is_null() {
            add(l.size() as isize);
        }
        p
    }
    unsafe fn alloc_zeroed(&self, l: Layout) -> *mut u8 {
        let p = System.alloc_zeroed(l);
        if !p.is_null() {
            add(l.size() as isize);
        }
        p
    }
    unsafe fn dealloc(&self, p: *mut u8, l: Layout) {
        System.dealloc(p, l);
        add(-(l.size() as isize));
    }
    unsafe fn realloc(&self, p: *mut u8, l: Layout, new: usize) -> *mut u8 {
        let q = System.realloc(p, l, new);
        if !q.is_null() {
            add(new as isize - l.size() as isize);
        }
        q
    }
}

#[inline]
fn add(d: isize) {
    // try_with: the allocator can be called during thread teardown
    let _ = LIVE.try_with(|c| {
        let v = c.get() + d;
        c.set(v);
        let _ = PEAK.try_with(|p| {
            if v > p.get() {
                p.set(v)
            }
        });
    });
}

pub fn live() -> isize {
    LIVE.with(|c| c.get())
}

pub fn peak() -> isize {
    PEAK.with(|c| c.get())
}

pub fn reset_peak() {
    let v = live();
    PEAK.with(|p| p.set(v));
}
