//! Uniform wrapper over TDigest with the four scale functions.
use pdatastructs::tdigest::{TDigest, K0, K1, K2, K3};
use proptest::prelude::*;
use serde::{Deserialize, Serialize};

#[derive(Clone, Copy, Debug, PartialEq, Eq, Hash, Serialize, Deserialize)]
pub enum Scale {
    K0,
    K1,
    K2,
    K3,
}

impl Scale {
    pub fn name(self) -> &'static str {
        match self {
            Scale::K0 => "K0",
            Scale::K1 => "K1",
            Scale::K2 => "K2",
            Scale::K3 => "K3",
        }
    }
}

pub fn scale() -> impl Strategy<Value = Scale> {
    prop_oneof![Just(Scale::K0), Just(Scale::K1), Just(Scale::K2), Just(Scale::K3)]
}

#[derive(Clone, Debug)]
pub enum AnyTD {
    K0(TDigest<K0>),
    K1(TDigest<K1>),
    K2(TDigest<K2>),
    K3(TDigest<K3>),
}

macro_rules! each {
    ($s:expr, $d:ident => $e:expr) => {
        match $s {
            AnyTD::K0($d) => $e,
            AnyTD::K1($d) => $e,
            AnyTD::K2($d) => $e,
            AnyTD::K3($d) => $e,
        }
    };
}

impl AnyTD {
    pub fn new(scale: Scale, delta: f64, backlog: usize) -> Self {
        match scale {
            Scale::K0 => AnyTD::K0(TDigest::new(K0::new(delta), backlog)),
            Scale::K1 => AnyTD::K1(TDigest::new(K1::new(delta), backlog)),
            Scale::K2 => AnyTD::K2(TDigest::new(K2::new(delta), backlog)),
            Scale::K3 => AnyTD::K3(TDigest::new(K3::new(delta), backlog)),
        }
    }
    pub fn insert(&mut self, x: f64) {
        each!(self, d => d.insert(x))
    }
    pub fn insert_weighted(&mut self, x: f64, w: f64) {
        each!(self, d => d.insert_weighted(x, w))
    }
    pub fn quantile(&self, q: f64) -> f64 {
        each!(self, d => d.quantile(q))
    }
    pub fn cdf(&self, x: f64) -> f64 {
        each!(self, d => d.cdf(x))
    }
    pub fn count(&self) -> f64 {
        each!(self, d => d.count())
    }
    pub fn sum(&self) -> f64 {
        each!(self, d => d.sum())
    }
    pub fn mean(&self) -> f64 {
        each!(self, d => d.mean())
    }
    pub fn min(&self) -> f64 {
        each!(self, d => d.min())
    }
    pub fn max(&self) -> f64 {
        each!(self, d => d.max())
    }
    pub fn is_empty(&self) -> bool {
        each!(self, d => d.is_empty())
    }
    pub fn clear(&mut self) {
        each!(self, d => d.clear())
    }
    pub fn n_centroids(&self) -> usize {
        each!(self, d => d.n_centroids())
    }
    pub fn delta(&self) -> f64 {
        each!(self, d => d.delta())
    }
    pub fn max_backlog_size(&self) -> usize {
        each!(self, d => d.max_backlog_size())
    }
}
