//! Uniform wrapper over the four `Filter` implementations with generated hashers / RNG,
//! key specifications that materialise against a configuration, and behavioural classes.
use crate::engine::idx;
use crate::support::hashers::{GenBH, HKind};
use crate::support::rng::{take_last_clone, RngHandle, ScriptRng};
use pdatastructs::filters::bloomfilter::BloomFilter;
use pdatastructs::filters::cuckoofilter::CuckooFilter;
use pdatastructs::filters::quotientfilter::QuotientFilter;
use pdatastructs::filters::Filter;
use proptest::prelude::*;
use serde::{Deserialize, Serialize};
use std::collections::HashSet;

#[derive(Clone, Copy, Debug, PartialEq, Eq, Hash, Serialize, Deserialize)]
pub enum FCfg {
    Bloom { m: usize, k: usize },
    Cuckoo { bucketsize: usize, n_buckets: usize, l_fp: usize },
    Quotient { q: usize, r: usize },
    Set,
}

impl FCfg {
    pub fn kind(&self) -> &'static str {
        match self {
            FCfg::Bloom { .. } => "bloom",
            FCfg::Cuckoo { .. } => "cuckoo",
            FCfg::Quotient { .. } => "quotient",
            FCfg::Set => "hashset",
        }
    }
    pub fn capacity(&self) -> usize {
        match *self {
            FCfg::Bloom { .. } | FCfg::Set => usize::MAX,
            FCfg::Cuckoo { bucketsize, n_buckets, .. } => bucketsize * n_buckets,
            FCfg::Quotient { q, .. } => 1 << q,
        }
    }
}

#[derive(Clone, Debug, Serialize, Deserialize)]
pub struct RngSpec {
    pub script: Vec<u64>,
    pub tail: u64,
}

pub fn rng_spec() -> impl Strategy<Value = RngSpec> {
    (
        prop::collection::vec(
            prop_oneof![
                3 => any::<u64>(),
                1 => Just(0u64),
                1 => Just(u64::MAX),
                1 => (0u32..64).prop_map(|i| 1u64 << i),
                1 => Just(1u64 << 63),
            ],
            0..24,
        ),
        any::<u64>(),
    )
        .prop_map(|(script, tail)| RngSpec { script, tail })
}

/// Key specification; materialised against (cfg, hasher) so that the generator can place keys.
#[derive(Clone, Debug, Serialize, Deserialize)]
pub enum KeySpec {
    Raw(u64),
    Small(u8),
    /// quotient filter under Ident: (quotient index, remainder, trash high bits)
    QR { quot: u16, rem: u16, trash: u64 },
    /// quotient counted backwards from the ring end
    QREnd { back: u8, rem: u16, trash: u64 },
    /// high half / low half for the Split hasher (cuckoo: fingerprint / bucket; bloom: h1 / h2)
    Split { hi: u32, lo: u32 },
}

impl KeySpec {
    pub fn materialise(&self, cfg: &FCfg) -> u64 {
        match (*self).clone() {
            KeySpec::Raw(x) => x,
            KeySpec::Small(x) => x as u64,
            KeySpec::QR { quot, rem, trash } => match *cfg {
                FCfg::Quotient { q, r } => qr_key(q, r, idx(quot, 1 << q) as u64, rem as u64, trash),
                _ => ((quot as u64) << 32) | rem as u64,
            },
            KeySpec::QREnd { back, rem, trash } => match *cfg {
                FCfg::Quotient { q, r } => {
                    let n = 1u64 << q;
                    qr_key(q, r, (n - 1).saturating_sub(back as u64 % n), rem as u64, trash)
                }
                _ => ((back as u64) << 32) | rem as u64,
            },
            KeySpec::Split { hi, lo } => ((hi as u64) << 32) | lo as u64,
        }
    }
}

fn qr_key(q: usize, r: usize, quot: u64, rem: u64, trash: u64) -> u64 {
    let rem = if r >= 64 { rem } else { rem & ((1u64 << r) - 1) };
    let low = (quot << r) | rem;
    if q + r >= 64 {
        low
    } else {
        low | (trash << (q + r))
    }
}

pub fn key_spec() -> impl Strategy<Value = KeySpec> {
    prop_oneof![
        2 => any::<u64>().prop_map(KeySpec::Raw),
        // the ends of the hash range (under the Ident hasher the key is the hash)
        2 => prop_oneof![Just(u64::MAX), Just(u64::MAX - 1), Just(0u64), Just(1u64), Just(1u64 << 63), Just(u64::MAX >> 1), Just(1u64 << 32), Just((1u64 << 32) - 1)].prop_map(KeySpec::Raw),
        2 => (0u8..40).prop_map(KeySpec::Small),
        4 => (any::<u16>(), 0u16..6, any::<u64>()).prop_map(|(quot, rem, trash)| KeySpec::QR { quot, rem, trash }),
        2 => (0u8..4, 0u16..6, any::<u64>()).prop_map(|(back, rem, trash)| KeySpec::QREnd { back, rem, trash }),
        5 => (0u32..6, 0u32..8).prop_map(|(hi, lo)| KeySpec::Split { hi, lo }),
        1 => (any::<u32>(), any::<u32>()).prop_map(|(hi, lo)| KeySpec::Split { hi, lo }),
    ]
}

pub fn hkind_any() -> impl Strategy<Value = HKind> {
    prop_oneof![
        3 => Just(HKind::Ident),
        4 => Just(HKind::Split),
        2 => Just(HKind::Sip),
        1 => (0u64..100).prop_map(HKind::Seeded),
        1 => any::<u64>().prop_map(HKind::Mix),
        1 => (0u64..4).prop_map(HKind::Const),
        1 => (1u64..7).prop_map(HKind::Mod),
    ]
}

/// hasher family biased to the one that lets the generator place keys for this configuration
pub fn hkind_for(cfg: &FCfg) -> BoxedStrategy<HKind> {
    match cfg {
        FCfg::Quotient { .. } => prop_oneof![6 => Just(HKind::Ident), 4 => hkind_any()].boxed(),
        FCfg::Cuckoo { .. } | FCfg::Bloom { .. } => prop_oneof![5 => Just(HKind::Split), 1 => Just(HKind::Ident), 5 => hkind_any()].boxed(),
        FCfg::Set => hkind_any().boxed(),
    }
}

pub fn cuckoo_cfg() -> impl Strategy<Value = FCfg> {
    (prop_oneof![12 => 2usize..=8, 1 => 9usize..=20], prop_oneof![12 => 1u32..=5, 1 => 6u32..=7], prop_oneof![Just(2usize), Just(3), Just(4), Just(5), Just(8), Just(16), Just(32), Just(63), Just(64), 2usize..=64])
        .prop_map(|(bucketsize, lg, l_fp)| FCfg::Cuckoo { bucketsize, n_buckets: 1 << lg, l_fp })
}

pub fn cuckoo_cfg_small() -> impl Strategy<Value = FCfg> {
    (2usize..=4, 1u32..=3, prop_oneof![Just(2usize), Just(3), Just(4), Just(8), Just(64), 2usize..=64])
        .prop_map(|(bucketsize, lg, l_fp)| FCfg::Cuckoo { bucketsize, n_buckets: 1 << lg, l_fp })
}

pub fn quotient_cfg() -> impl Strategy<Value = FCfg> {
    (1usize..=6, prop_oneof![Just(1usize), Just(2), Just(3), Just(8), Just(16), Just(58), Just(100usize), Just(101), 1usize..=58]).prop_map(|(q, r)| FCfg::Quotient { q, r: if r >= 100 { 64 - q - (r - 100) } else { r } })
}

pub fn quotient_cfg_small() -> impl Strategy<Value = FCfg> {
    (1usize..=4, prop_oneof![3 => Just(1usize), 3 => Just(2), 3 => Just(3), 3 => Just(8), 1 => Just(100usize), 1 => Just(101), 2 => 1usize..=60]).prop_map(|(q, r)| FCfg::Quotient { q, r: if r >= 100 { 64 - q - (r - 100) } else { r } })
}

pub fn bloom_cfg() -> impl Strategy<Value = FCfg> {
    (prop_oneof![12 => 1usize..=16, 12 => 1usize..=512, 1 => prop_oneof![Just(65_535usize), Just(65_536), Just(65_537), Just(1usize << 22), Just((1usize << 22) + 1)]], prop_oneof![12 => 0usize..=8, 1 => 9usize..=40]).prop_map(|(m, k)| FCfg::Bloom { m, k })
}

pub fn filter_cfg() -> impl Strategy<Value = FCfg> {
    prop_oneof![
        2 => bloom_cfg(),
        4 => cuckoo_cfg(),
        4 => quotient_cfg(),
        1 => Just(FCfg::Set),
    ]
}

pub enum AnyFilter {
    Bloom(BloomFilter<u64, GenBH>),
    Cuckoo(CuckooFilter<u64, ScriptRng, GenBH>, RngHandle),
    Quotient(QuotientFilter<u64, GenBH>),
    Set(HashSet<u64>),
}

impl AnyFilter {
    pub fn new(cfg: &FCfg, hk: HKind, rng: &RngSpec) -> Self {
        let bh = GenBH(hk);
        match *cfg {
            FCfg::Bloom { m, k } => AnyFilter::Bloom(BloomFilter::with_params_and_hash(m, k, bh)),
            FCfg::Cuckoo { bucketsize, n_buckets, l_fp } => {
                let (r, drawn) = ScriptRng::new(rng.script.clone(), rng.tail);
                AnyFilter::Cuckoo(CuckooFilter::with_params_and_hash(r, bucketsize, n_buckets, l_fp, bh), drawn)
            }
            FCfg::Quotient { q, r } => AnyFilter::Quotient(QuotientFilter::with_params_and_hash(q, r, bh)),
            FCfg::Set => AnyFilter::Set(HashSet::new()),
        }
    }
    /// Ok(bool) or Err(()) for Full
    pub fn insert(&mut self, k: u64) -> Result<bool, ()> {
        match self {
            AnyFilter::Bloom(f) => f.insert(&k).map_err(|_| ()),
            AnyFilter::Cuckoo(f, _) => f.insert(&k).map_err(|_| ()),
            AnyFilter::Quotient(f) => f.insert(&k).map_err(|_| ()),
            AnyFilter::Set(f) => <HashSet<u64> as Filter<u64>>::insert(f, &k).map_err(|_| ()),
        }
    }
    pub fn query(&self, k: u64) -> bool {
        match self {
            AnyFilter::Bloom(f) => f.query(&k),
            AnyFilter::Cuckoo(f, _) => f.query(&k),
            AnyFilter::Quotient(f) => f.query(&k),
            AnyFilter::Set(f) => <HashSet<u64> as Filter<u64>>::query(f, &k),
        }
    }
    pub fn delete(&mut self, k: u64) -> Option<bool> {
        match self {
            AnyFilter::Cuckoo(f, _) => Some(f.delete(&k)),
            _ => None,
        }
    }
    pub fn union(&mut self, other: &AnyFilter) -> Result<(), ()> {
        match (self, other) {
            (AnyFilter::Bloom(a), AnyFilter::Bloom(b)) => a.union(b).map_err(|_| ()),
            (AnyFilter::Cuckoo(a, _), AnyFilter::Cuckoo(b, _)) => a.union(b).map_err(|_| ()),
            (AnyFilter::Quotient(a), AnyFilter::Quotient(b)) => a.union(b).map_err(|_| ()),
            (AnyFilter::Set(a), AnyFilter::Set(b)) => <HashSet<u64> as Filter<u64>>::union(a, b).map_err(|_| ()),
            _ => panic!("harness bug: union of different filter kinds"),
        }
    }
    pub fn clear(&mut self) {
        match self {
            AnyFilter::Bloom(f) => f.clear(),
            AnyFilter::Cuckoo(f, _) => f.clear(),
            AnyFilter::Quotient(f) => f.clear(),
            AnyFilter::Set(f) => <HashSet<u64> as Filter<u64>>::clear(f),
        }
    }
    pub fn len(&self) -> usize {
        match self {
            AnyFilter::Bloom(f) => f.len(),
            AnyFilter::Cuckoo(f, _) => f.len(),
            AnyFilter::Quotient(f) => f.len(),
            AnyFilter::Set(f) => <HashSet<u64> as Filter<u64>>::len(f),
        }
    }
    pub fn is_empty(&self) -> bool {
        match self {
            AnyFilter::Bloom(f) => f.is_empty(),
            AnyFilter::Cuckoo(f, _) => f.is_empty(),
            AnyFilter::Quotient(f) => f.is_empty(),
            AnyFilter::Set(f) => <HashSet<u64> as Filter<u64>>::is_empty(f),
        }
    }
    /// RNG words drawn so far (cuckoo only)
    pub fn drawn(&self) -> u64 {
        match self {
            AnyFilter::Cuckoo(_, d) => d.borrow().drawn,
            _ => 0,
        }
    }
    /// make this filter's RNG continue exactly like `other`'s from now on
    pub fn sync_rng_from(&self, other: &AnyFilter) {
        if let (AnyFilter::Cuckoo(_, a), AnyFilter::Cuckoo(_, b)) = (self, other) {
            let st = b.borrow().clone();
            *a.borrow_mut() = st;
        }
    }
    pub fn deep_clone(&self) -> AnyFilter {
        match self {
            AnyFilter::Bloom(f) => AnyFilter::Bloom(f.clone()),
            AnyFilter::Cuckoo(f, _) => {
                let g = f.clone();
                let h = take_last_clone().expect("cuckoo clone must clone its RNG");
                AnyFilter::Cuckoo(g, h)
            }
            AnyFilter::Quotient(f) => AnyFilter::Quotient(f.clone()),
            AnyFilter::Set(f) => AnyFilter::Set(f.clone()),
        }
    }
}

/// Behavioural fingerprint classes (C13/C14): x ~ y iff a fresh filter holding only x reports y.
/// Returns class id per universe element, or Err if the relation is not an equivalence.
pub fn classes(cfg: &FCfg, hk: HKind, universe: &[u64]) -> Result<Vec<usize>, String> {
    let n = universe.len();
    let empty_rng = RngSpec { script: vec![], tail: 1 };
    let mut rel = vec![vec![false; n]; n];
    for i in 0..n {
        let mut f = AnyFilter::new(cfg, hk, &empty_rng);
        if f.insert(universe[i]).is_err() {
            return Err(format!("insert of {} into an empty filter failed", universe[i]));
        }
        for j in 0..n {
            rel[i][j] = f.query(universe[j]);
        }
        if !rel[i][i] {
            return Err(format!("filter holding only {} does not report it", universe[i]));
        }
    }
    let mut cls = vec![usize::MAX; n];
    let mut next = 0;
    for i in 0..n {
        if cls[i] == usize::MAX {
            cls[i] = next;
            for j in 0..n {
                if rel[i][j] {
                    if cls[j] != usize::MAX && cls[j] != next {
                        return Err(format!("indistinguishability is not transitive at {} / {}", universe[i], universe[j]));
                    }
                    cls[j] = next;
                }
            }
            next += 1;
        }
    }
    for i in 0..n {
        for j in 0..n {
            if rel[i][j] != (cls[i] == cls[j]) {
                return Err(format!(
                    "indistinguishability is not an equivalence: holds({}) reports({}) = {} but classes {} / {}",
                    universe[i], universe[j], rel[i][j], cls[i], cls[j]
                ));
            }
        }
    }
    Ok(cls)
}
