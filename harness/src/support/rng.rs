//! RNG streams as generated data (DESIGN §3.2).
use rand::RngCore;
use std::cell::{Cell, RefCell};
use std::rc::Rc;

use crate::engine::stat::SplitMix64;

/// State of a [`ScriptRng`]; visible to the harness through an [`RngHandle`].
#[derive(Clone)]
pub struct RngState {
    script: Rc<Vec<u64>>,
    pos: usize,
    tail: SplitMix64,
    pub drawn: u64,
}

pub type RngHandle = Rc<RefCell<RngState>>;

thread_local! {
    static LAST_CLONE: RefCell<Option<RngHandle>> = const { RefCell::new(None) };
}

/// Handle of the most recently cloned ScriptRng on this thread (taken right after cloning the
/// structure that owns it).
pub fn take_last_clone() -> Option<RngHandle> {
    LAST_CLONE.with(|c| c.borrow_mut().take())
}

/// Words come from a generated script, then from a PRNG seeded by a generated value (so that
/// rand's rejection loops terminate). Counts the words drawn. `clone()` is a deep copy whose
/// handle can be fetched with [`take_last_clone`], so that the harness can align the RNG
/// streams of two structures.
pub struct ScriptRng {
    st: RngHandle,
}

impl ScriptRng {
    pub fn new(script: Vec<u64>, tail_seed: u64) -> (Self, RngHandle) {
        let st = Rc::new(RefCell::new(RngState { script: Rc::new(script), pos: 0, tail: SplitMix64(tail_seed), drawn: 0 }));
        (ScriptRng { st: st.clone() }, st)
    }
    pub fn from_state(state: RngState) -> (Self, RngHandle) {
        let st = Rc::new(RefCell::new(state));
        (ScriptRng { st: st.clone() }, st)
    }
}

impl Clone for ScriptRng {
    fn clone(&self) -> Self {
        let st = Rc::new(RefCell::new(self.st.borrow().clone()));
        LAST_CLONE.with(|c| *c.borrow_mut() = Some(st.clone()));
        ScriptRng { st }
    }
}

impl RngCore for ScriptRng {
    fn next_u32(&mut self) -> u32 {
        (self.next_u64() >> 32) as u32
    }
    fn next_u64(&mut self) -> u64 {
        let mut s = self.st.borrow_mut();
        s.drawn += 1;
        if s.pos < s.script.len() {
            let w = s.script[s.pos];
            s.pos += 1;
            w
        } else {
            s.tail.next()
        }
    }
    fn fill_bytes(&mut self, dest: &mut [u8]) {
        for chunk in dest.chunks_mut(8) {
            let w = self.next_u64().to_le_bytes();
            chunk.copy_from_slice(&w[..chunk.len()]);
        }
    }
    fn try_fill_bytes(&mut self, dest: &mut [u8]) -> Result<(), rand::Error> {
        self.fill_bytes(dest);
        Ok(())
    }
}

/// RNG whose whole state is one shared cell: a second structure can be given "the same RNG
/// stream from this point on" by constructing another SharedRng from the current value.
#[derive(Clone)]
pub struct SharedRng(pub Rc<Cell<u64>>);

impl SharedRng {
    pub fn new(seed: u64) -> Self {
        SharedRng(Rc::new(Cell::new(seed)))
    }
    /// independent RNG continuing from this one's current state
    pub fn fork(&self) -> Self {
        SharedRng(Rc::new(Cell::new(self.0.get())))
    }
    pub fn state(&self) -> u64 {
        self.0.get()
    }
}

impl RngCore for SharedRng {
    fn next_u32(&mut self) -> u32 {
        (self.next_u64() >> 32) as u32
    }
    fn next_u64(&mut self) -> u64 {
        let mut s = SplitMix64(self.0.get());
        let w = s.next();
        self.0.set(s.0);
        w
    }
    fn fill_bytes(&mut self, dest: &mut [u8]) {
        for chunk in dest.chunks_mut(8) {
            let w = self.next_u64().to_le_bytes();
            chunk.copy_from_slice(&w[..chunk.len()]);
        }
    }
    fn try_fill_bytes(&mut self, dest: &mut [u8]) -> Result<(), rand::Error> {
        self.fill_bytes(dest);
        Ok(())
    }
}

/// Plain deep-cloning deterministic RNG (SplitMix64) for structures that need `Clone` with
/// value semantics.
#[derive(Clone, Debug)]
pub struct SmRng(pub SplitMix64);

impl SmRng {
    pub fn new(seed: u64) -> Self {
        SmRng(SplitMix64(seed))
    }
}

impl RngCore for SmRng {
    fn next_u32(&mut self) -> u32 {
        (self.0.next() >> 32) as u32
    }
    fn next_u64(&mut self) -> u64 {
        self.0.next()
    }
    fn fill_bytes(&mut self, dest: &mut [u8]) {
        for chunk in dest.chunks_mut(8) {
            let w = self.next_u64().to_le_bytes();
            chunk.copy_from_slice(&w[..chunk.len()]);
        }
    }
    fn try_fill_bytes(&mut self, dest: &mut [u8]) -> Result<(), rand::Error> {
        self.fill_bytes(dest);
        Ok(())
    }
}
