//! RNG streams as generated data (DESIGN §3.2).
use rand::RngCore;
use std::cell::Cell;
use std::rc::Rc;

use crate::engine::stat::SplitMix64;

/// Words come from a generated script, then from a PRNG seeded by a generated value (so that
/// rand's rejection loops terminate). Counts the words drawn in a shared cell.
pub struct ScriptRng {
    script: Rc<Vec<u64>>,
    pos: usize,
    tail: SplitMix64,
    drawn: Rc<Cell<u64>>,
}

impl ScriptRng {
    pub fn new(script: Vec<u64>, tail_seed: u64) -> (Self, Rc<Cell<u64>>) {
        let drawn = Rc::new(Cell::new(0));
        (
            ScriptRng { script: Rc::new(script), pos: 0, tail: SplitMix64(tail_seed), drawn: drawn.clone() },
            drawn,
        )
    }
}

impl Clone for ScriptRng {
    /// deep copy of the state; the clone gets its own draw counter
    fn clone(&self) -> Self {
        ScriptRng {
            script: self.script.clone(),
            pos: self.pos,
            tail: self.tail.clone(),
            drawn: Rc::new(Cell::new(self.drawn.get())),
        }
    }
}

impl RngCore for ScriptRng {
    fn next_u32(&mut self) -> u32 {
        (self.next_u64() >> 32) as u32
    }
    fn next_u64(&mut self) -> u64 {
        self.drawn.set(self.drawn.get() + 1);
        if self.pos < self.script.len() {
            let w = self.script[self.pos];
            self.pos += 1;
            w
        } else {
            self.tail.next()
        }
    }
    fn fill_bytes(&mut self, dest: &mut [u8]) {
        for chunk in dest.chunks_mut(8) {
            let w = self.next_u64().to_le_bytes();
            chunk.copy_from_slice(&w[..chunk.len()]);
        }
    }
    fn try_fill_bytes(&mut self, dest: &mut [u8]) -> Result<(), rand::Error> {
        self.fill_bytes(dest);
        Ok(())
    }
}

/// RNG whose whole state is one shared cell: a second structure can be given "the same RNG
/// stream from this point on" by constructing another SharedRng from the current value.
#[derive(Clone)]
pub struct SharedRng(pub Rc<Cell<u64>>);

impl SharedRng {
    pub fn new(seed: u64) -> Self {
        SharedRng(Rc::new(Cell::new(seed)))
    }
    /// independent RNG continuing from this one's current state
    pub fn fork(&self) -> Self {
        SharedRng(Rc::new(Cell::new(self.0.get())))
    }
    pub fn state(&self) -> u64 {
        self.0.get()
    }
}

impl RngCore for SharedRng {
    fn next_u32(&mut self) -> u32 {
        (self.next_u64() >> 32) as u32
    }
    fn next_u64(&mut self) -> u64 {
        let mut s = SplitMix64(self.0.get());
        let w = s.next();
        self.0.set(s.0);
        w
    }
    fn fill_bytes(&mut self, dest: &mut [u8]) {
        for chunk in dest.chunks_mut(8) {
            let w = self.next_u64().to_le_bytes();
            chunk.copy_from_slice(&w[..chunk.len()]);
        }
    }
    fn try_fill_bytes(&mut self, dest: &mut [u8]) -> Result<(), rand::Error> {
        self.fill_bytes(dest);
        Ok(())
    }
}

/// Plain deep-cloning deterministic RNG (SplitMix64) for structures that need `Clone` with
/// value semantics.
#[derive(Clone, Debug)]
pub struct SmRng(pub SplitMix64);

impl SmRng {
    pub fn new(seed: u64) -> Self {
        SmRng(SplitMix64(seed))
    }
}

impl RngCore for SmRng {
    fn next_u32(&mut self) -> u32 {
        (self.0.next() >> 32) as u32
    }
    fn next_u64(&mut self) -> u64 {
        self.0.next()
    }
    fn fill_bytes(&mut self, dest: &mut [u8]) {
        for chunk in dest.chunks_mut(8) {
            let w = self.next_u64().to_le_bytes();
            chunk.copy_from_slice(&w[..chunk.len()]);
        }
    }
    fn try_fill_bytes(&mut self, dest: &mut [u8]) -> Result<(), rand::Error> {
        self.fill_bytes(dest);
        Ok(())
    }
}
