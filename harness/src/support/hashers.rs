//! Hash functions as generated data (DESIGN §3.1).
//!
//! The library hashes as `build_hasher(); [write_usize(iv);] obj.hash(); finish()`; with `u64`
//! keys `obj.hash` is one `write_u64`. These `BuildHasher`s are legal (deterministic, equal
//! instances compare equal) and make `finish()` a simple known function of the words written.
use serde::{Deserialize, Serialize};
use std::collections::hash_map::DefaultHasher;
use std::hash::{BuildHasher, Hasher};

#[derive(Clone, Copy, PartialEq, Eq, Debug, Hash, Serialize, Deserialize)]
pub enum HKind {
    /// SipHash with default keys (what `BuildHasherDefault<DefaultHasher>` gives)
    Sip,
    /// SipHash pre-fed with a seed (same stream as `BuildHasherSeeded`)
    Seeded(u64),
    /// last word written (0 if none)
    Ident,
    /// two words [iv, key]: iv = 0 -> key >> 32, iv >= 1 -> key & 0xffff_ffff; one word -> 0
    Split,
    /// SplitMix64 over (seed, words)
    Mix(u64),
    /// constant
    Const(u64),
    /// last word modulo m
    Mod(u64),
}

#[derive(Clone, Copy, PartialEq, Eq, Debug, Hash, Serialize, Deserialize)]
pub struct GenBH(pub HKind);

pub struct GenHasher {
    kind: HKind,
    sip: DefaultHasher,
    words: [u64; 4],
    n: usize,
}

impl GenHasher {
    #[inline]
    fn push(&mut self, w: u64) {
        if self.n < 4 {
            self.words[self.n] = w;
        } else {
            // fold overflow into the last word (only reachable with byte-string keys)
            self.words[3] = self.words[3].rotate_left(13) ^ w;
        }
        self.n += 1;
    }
}

impl Hasher for GenHasher {
    #[inline]
    fn write(&mut self, bytes: &[u8]) {
        match self.kind {
            HKind::Sip | HKind::Seeded(_) => self.sip.write(bytes),
            _ => {
                for chunk in bytes.chunks(8) {
                    let mut b = [0u8; 8];
                    b[..chunk.len()].copy_from_slice(chunk);
                    self.push(u64::from_le_bytes(b));
                }
            }
        }
    }
    #[inline]
    fn write_u8(&mut self, i: u8) {
        match self.kind {
            HKind::Sip | HKind::Seeded(_) => self.sip.write_u8(i),
            _ => self.push(i as u64),
        }
    }
    #[inline]
    fn write_u64(&mut self, i: u64) {
        match self.kind {
            HKind::Sip | HKind::Seeded(_) => self.sip.write_u64(i),
            _ => self.push(i),
        }
    }
    #[inline]
    fn write_usize(&mut self, i: usize) {
        match self.kind {
            HKind::Sip | HKind::Seeded(_) => self.sip.write_usize(i),
            _ => self.push(i as u64),
        }
    }
    #[inline]
    fn finish(&self) -> u64 {
        let last = if self.n == 0 { 0 } else { self.words[(self.n - 1).min(3)] };
        match self.kind {
            HKind::Sip | HKind::Seeded(_) => self.sip.finish(),
            HKind::Ident => last,
            HKind::Split => {
                if self.n >= 2 {
                    if self.words[0] == 0 {
                        last >> 32
                    } else {
                        last & 0xffff_ffff
                    }
                } else {
                    0
                }
            }
            HKind::Mix(s) => {
                let mut z = crate::engine::mix64(s);
                for i in 0..self.n.min(4) {
                    z = crate::engine::mix64(z ^ self.words[i]);
                }
                z
            }
            HKind::Const(c) => c,
            HKind::Mod(m) => last % m.max(1),
        }
    }
}

impl BuildHasher for GenBH {
    type Hasher = GenHasher;
    #[inline]
    fn build_hasher(&self) -> GenHasher {
        let mut sip = DefaultHasher::default();
        if let HKind::Seeded(s) = self.0 {
            sip.write_usize(s as usize);
        }
        GenHasher { kind: self.0, sip, words: [0; 4], n: 0 }
    }
}

/// hash_one as the library computes it for quotient filter / HLL
pub fn hash_one_u64(bh: &GenBH, key: u64) -> u64 {
    use std::hash::Hash;
    let mut h = bh.build_hasher();
    key.hash(&mut h);
    h.finish()
}

#[cfg(test)]
mod tests {
    use super::*;
    use pdatastructs::hash_utils::BuildHasherSeeded;
    #[test]
    fn seeded_matches_library() {
        for s in [0u64, 1, 77] {
            let a = GenBH(HKind::Seeded(s));
            let b = BuildHasherSeeded::new(s as usize);
            for k in [0u64, 5, u64::MAX] {
                assert_eq!(a.hash_one(k), b.hash_one(k));
            }
        }
        let a = GenBH(HKind::Sip);
        let b = std::hash::BuildHasherDefault::<DefaultHasher>::default();
        assert_eq!(a.hash_one(42u64), b.hash_one(42u64));
        assert_eq!(a.hash_one("abc"), b.hash_one("abc"));
    }
}
