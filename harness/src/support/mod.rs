pub mod alloc;
pub mod filters;
pub mod hashers;
pub mod rng;
pub mod td;
