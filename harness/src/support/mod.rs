pub mod alloc;
pub mod hashers;
pub mod rng;
