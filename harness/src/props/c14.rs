//! C14 — CuckooFilter is an exact multiset over fingerprint classes.
use crate::engine::*;
use crate::support::filters::*;
use crate::support::hashers::HKind;
use proptest::prelude::*;
use serde::{Deserialize, Serialize};
use serde_json::json;

#[derive(Clone, Debug, Serialize, Deserialize)]
pub enum Op {
    Insert(u16),
    Delete(u16),
}

#[derive(Clone, Debug, Serialize, Deserialize)]
pub struct Case {
    pub cfg: FCfg,
    pub hk: HKind,
    pub rng: RngSpec,
    pub universe: Vec<KeySpec>,
    pub ops: Vec<Op>,
}

/// Per-class stored-copy counts measured by deleting on a clone until delete returns false.
pub fn delete_counts(f: &AnyFilter, uni: &[u64], cls: &[usize], ncls: usize) -> Result<Vec<u32>, String> {
    let mut g = f.deep_clone();
    let mut out = vec![0u32; ncls];
    let cap = f.len() as u32 + 4;
    for c in 0..ncls {
        let rep = uni[(0..uni.len()).find(|&i| cls[i] == c).unwrap()];
        while g.delete(rep).unwrap() {
            out[c] += 1;
            if out[c] > cap {
                return Err(format!("delete({}) keeps returning true ({} times, len was {})", rep, out[c], f.len()));
            }
        }
    }
    Ok(out)
}

pub struct Stats {
    pub dup_insert: bool,
    pub any_delete: bool,
    pub evictions: u32,
    pub absent_delete_nonempty: bool,
    pub failed_insert: u32,
}

/// Apply ops (universe indices) against the class-multiset model with full checks after every op.
pub fn run_ops(cfg: &FCfg, hk: HKind, rng: &RngSpec, uni: &[u64], cls: &[usize], ops: &[(bool, usize)], deep_every: usize) -> Result<Stats, (String, String)> {
    let FCfg::Cuckoo { bucketsize, .. } = *cfg else { unreachable!() };
    let ncls = cls.iter().max().map(|m| m + 1).unwrap_or(0);
    let mut f = AnyFilter::new(cfg, hk, rng);
    let mut counts = vec![0u32; ncls];
    let mut st = Stats { dup_insert: false, any_delete: false, evictions: 0, absent_delete_nonempty: false, failed_insert: 0 };
    for (step, &(is_insert, i)) in ops.iter().enumerate() {
        let k = uni[i];
        let c = cls[i];
        let total: u32 = counts.iter().sum();
        let what;
        if is_insert {
            let before = f.drawn();
            let pre = if total > 0 { Some(f.deep_clone()) } else { None };
            let res = f.insert(k);
            if f.drawn() > before {
                st.evictions += 1;
            }
            what = format!("insert({}) -> {:?}", k, res);
            match res {
                Ok(true) => {
                    if counts[c] > 0 {
                        st.dup_insert = true;
                    }
                    counts[c] += 1;
                }
                Ok(false) => {
                    return Err((
                        "insert-returns-Ok(false)".into(),
                        format!("step {}: insert({}) returned Ok(false); every successful insert is documented to report Ok(true) [class {} had {} copies, len {}]", step, k, c, counts[c], total),
                    ));
                }
                Err(()) => {
                    st.failed_insert += 1;
                    if (total as usize) < bucketsize {
                        return Err((
                            "insert-fails-below-bucketsize".into(),
                            format!("step {}: insert({}) failed although the filter holds only {} < bucketsize {} elements", step, k, total, bucketsize),
                        ));
                    }
                    // model unchanged; C12's snapshot equality on the pre-call clone
                    if let Some(p) = pre {
                        let a = delete_counts(&f, uni, cls, ncls).map_err(|e| ("delete-unbounded".to_string(), e))?;
                        let b = delete_counts(&p, uni, cls, ncls).map_err(|e| ("delete-unbounded".to_string(), e))?;
                        if a != b {
                            return Err((
                                "failed-insert-changes-state".into(),
                                format!("step {}: failed insert({}) changed the per-class copy counts from {:?} to {:?}", step, k, b, a),
                            ));
                        }
                    }
                }
            }
        } else {
            let res = f.delete(k).unwrap();
            what = format!("delete({}) -> {}", k, res);
            st.any_delete = true;
            let want = counts[c] > 0;
            if !want && total > 0 {
                st.absent_delete_nonempty = true;
            }
            if res != want {
                return Err((
                    format!("delete-returns-{}", res),
                    format!("step {}: delete({}) returned {} but class {} has {} stored copies", step, k, res, c, counts[c]),
                ));
            }
            if res {
                counts[c] -= 1;
            }
        }
        let total: u32 = counts.iter().sum();
        if f.len() != total as usize {
            return Err(("len!=inserts-deletes".into(), format!("step {} ({}): len() = {} but model holds {} copies", step, what, f.len(), total)));
        }
        if f.is_empty() != (total == 0) {
            return Err(("is_empty".into(), format!("step {} ({}): is_empty() = {} with {} copies", step, what, f.is_empty(), total)));
        }
        for (j, &y) in uni.iter().enumerate() {
            let want = counts[cls[j]] > 0;
            if f.query(y) != want {
                return Err((
                    format!("query:{}", if want { "false-negative" } else { "phantom-positive" }),
                    format!("step {} ({}): query({}) = {} but class {} has {} copies", step, what, y, !want, cls[j], counts[cls[j]]),
                ));
            }
        }
        if deep_every > 0 && (step % deep_every == deep_every - 1 || step + 1 == ops.len()) {
            let got = delete_counts(&f, uni, cls, ncls).map_err(|e| ("delete-unbounded".to_string(), e))?;
            if got != counts {
                return Err((
                    "copy-counts!=model".into(),
                    format!("step {} ({}): per-class deletable copies {:?} differ from the model {:?}", step, what, got, counts),
                ));
            }
        }
    }
    Ok(st)
}

pub struct Random;

impl Check for Random {
    type Case = Case;
    fn name(&self) -> &'static str {
        "random_history"
    }
    fn eval(&self, c: &Case) -> Verdict {
        let uni: Vec<u64> = c.universe.iter().map(|k| k.materialise(&c.cfg)).collect();
        let cls = match classes(&c.cfg, c.hk, &uni) {
            Ok(x) => x,
            Err(e) => return fail("classes-not-equivalence", e),
        };
        let ops: Vec<(bool, usize)> = c
            .ops
            .iter()
            .map(|o| match o {
                Op::Insert(i) => (true, idx(*i, uni.len())),
                Op::Delete(i) => (false, idx(*i, uni.len())),
            })
            .collect();
        match run_ops(&c.cfg, c.hk, &c.rng, &uni, &cls, &ops, 4) {
            Err((sig, msg)) => fail(sig, format!("{} [cfg={:?} hasher={:?}]", msg, c.cfg, c.hk)),
            Ok(st) => {
                let nontrivial = (st.dup_insert && st.any_delete) || st.evictions > 0 || st.absent_delete_nonempty;
                let mut info = Info::new(nontrivial, hash_json(c))
                    .class_if(st.dup_insert, "duplicate_insert")
                    .class_if(st.evictions > 0, "eviction")
                    .class_if(st.absent_delete_nonempty, "delete_absent_class")
                    .class_if(st.failed_insert > 0, "failed_insert");
                info.inner_evals = ops.len() as u64;
                Verdict::Pass(info)
            }
        }
    }
}

#[derive(Clone, Debug, Serialize, Deserialize)]
pub struct SeqCase {
    pub bucketsize: usize,
    pub n_buckets: usize,
    pub l_fp: usize,
    pub rng: RngSpec,
    /// (is_insert, key index) over the universe hi in 0..nfp, lo in 0..n_buckets
    pub seq: Vec<(bool, u16)>,
}

fn exh_universe(n_buckets: usize, l_fp: usize) -> Vec<u64> {
    let nfp = (1u64 << l_fp) - 1;
    let mut u = vec![];
    for hi in 0..nfp {
        for lo in 0..n_buckets as u64 {
            u.push((hi << 32) | lo);
        }
    }
    u
}

pub struct Seq;

impl Check for Seq {
    type Case = SeqCase;
    fn name(&self) -> &'static str {
        "exhaustive_sequences"
    }
    fn eval(&self, c: &SeqCase) -> Verdict {
        let cfg = FCfg::Cuckoo { bucketsize: c.bucketsize, n_buckets: c.n_buckets, l_fp: c.l_fp };
        let uni = exh_universe(c.n_buckets, c.l_fp);
        let cls = match classes(&cfg, HKind::Split, &uni) {
            Ok(x) => x,
            Err(e) => return fail("classes-not-equivalence", e),
        };
        let ops: Vec<(bool, usize)> = c.seq.iter().map(|&(b, i)| (b, i as usize % uni.len())).collect();
        match run_ops(&cfg, HKind::Split, &c.rng, &uni, &cls, &ops, 1) {
            Err((sig, msg)) => fail(sig, msg),
            Ok(st) => Verdict::Pass(Info::new((st.dup_insert && st.any_delete) || st.evictions > 0 || st.absent_delete_nonempty, hash_json(c))),
        }
    }
}

fn scripts(seed: u64) -> Vec<RngSpec> {
    let mut g = stat::SplitMix64(seed);
    let mut alt = vec![];
    for i in 0..64 {
        alt.push(if i % 2 == 0 { 0 } else { u64::MAX });
    }
    vec![
        RngSpec { script: vec![0; 4096], tail: 1 },
        RngSpec { script: vec![u64::MAX; 16], tail: 2 },
        RngSpec { script: alt, tail: 3 },
        RngSpec { script: (0..32).map(|_| g.next()).collect(), tail: g.next() },
    ]
}

struct Dfs<'a> {
    cfg: FCfg,
    uni: &'a [u64],
    cls: &'a [usize],
    ncls: usize,
    max_len: usize,
    rng: &'a RngSpec,
    bucketsize: usize,
}

impl<'a> Dfs<'a> {
    fn case(&self, seq: &[(bool, u16)]) -> SeqCase {
        let FCfg::Cuckoo { bucketsize, n_buckets, l_fp } = self.cfg else { unreachable!() };
        SeqCase { bucketsize, n_buckets, l_fp, rng: self.rng.clone(), seq: seq.to_vec() }
    }
    fn go(&self, f: &AnyFilter, counts: &mut Vec<u32>, seq: &mut Vec<(bool, u16)>, flags: (bool, bool, bool), acc: &mut Acc) -> Option<(serde_json::Value, String, String)> {
        if seq.len() == self.max_len {
            return None;
        }
        for opi in 0..2 * self.uni.len() {
            let is_insert = opi < self.uni.len();
            let i = opi % self.uni.len();
            let k = self.uni[i];
            let c = self.cls[i];
            let total: u32 = counts.iter().sum();
            // prune: deleting from an empty filter only at depth 0 (same state, nothing learned deeper)
            if !is_insert && total == 0 && !seq.is_empty() {
                continue;
            }
            let mut g = f.deep_clone();
            seq.push((is_insert, i as u16));
            let mut bad: Option<(String, String)> = None;
            let (mut dup, mut evict, mut absent) = flags;
            let mut changed: Option<usize> = None;
            if is_insert {
                let before = g.drawn();
                match g.insert(k) {
                    Ok(true) => {
                        if counts[c] > 0 {
                            dup = true;
                        }
                        counts[c] += 1;
                        changed = Some(c);
                    }
                    Ok(false) => bad = Some(("insert-returns-Ok(false)".into(), String::new())),
                    Err(()) => {
                        if (total as usize) < self.bucketsize {
                            bad = Some(("insert-fails-below-bucketsize".into(), String::new()));
                        }
                    }
                }
                if g.drawn() > before {
                    evict = true;
                }
            } else {
                let res = g.delete(k).unwrap();
                let want = counts[c] > 0;
                if !want && total > 0 {
                    absent = true;
                }
                if res != want {
                    bad = Some((format!("delete-returns-{}", res), String::new()));
                } else if res {
                    counts[c] -= 1;
                    changed = Some(c);
                }
            }
            if bad.is_none() {
                let t: u32 = counts.iter().sum();
                if g.len() != t as usize || g.is_empty() != (t == 0) {
                    bad = Some(("len!=inserts-deletes".into(), String::new()));
                } else if self.uni.iter().enumerate().any(|(j, &y)| g.query(y) != (counts[self.cls[j]] > 0)) {
                    bad = Some(("query".into(), String::new()));
                } else {
                    match delete_counts(&g, self.uni, self.cls, self.ncls) {
                        Ok(dc) if dc == *counts => {}
                        _ => bad = Some(("copy-counts!=model".into(), String::new())),
                    }
                }
            }
            if let Some((sig, _)) = bad {
                let case = self.case(seq);
                let (sig, msg) = match Seq.eval(&case) {
                    Verdict::Fail { sig, msg } => (sig, msg),
                    _ => (sig, "DFS oracle and sequential oracle disagree".to_string()),
                };
                return Some((serde_json::to_value(&case).unwrap(), sig, msg));
            }
            let nontrivial = (dup && seq.iter().any(|o| !o.0)) || evict || absent;
            {
                let s = &*seq;
                let cfg = &self.cfg;
                acc.pass_enum(nontrivial, || json!({"cfg": cfg, "ops(is_insert,key_index)": s}));
            }
            if evict {
                acc.class("eviction");
            }
            let r = self.go(&g, counts, seq, (dup, evict, absent), acc);
            // undo model change
            if let Some(c) = changed {
                if is_insert {
                    counts[c] -= 1;
                } else {
                    counts[c] += 1;
                }
            }
            seq.pop();
            if r.is_some() {
                return r;
            }
        }
        None
    }
}

fn exhaustive(ctx: &Ctx, bucketsize: usize, n_buckets: usize, l_fp: usize, max_len: usize) {
    let cfg = FCfg::Cuckoo { bucketsize, n_buckets, l_fp };
    let uni = exh_universe(n_buckets, l_fp);
    let cls = match classes(&cfg, HKind::Split, &uni) {
        Ok(x) => x,
        Err(e) => {
            ctx.handle_fail("exhaustive_sequences", &json!({"cfg": cfg}), "classes-not-equivalence", &e, None);
            return;
        }
    };
    let ncls = cls.iter().max().unwrap() + 1;
    let scr = scripts(mix(ctx.seed, (bucketsize * 1000 + n_buckets * 10 + l_fp) as u64));
    let nops = 2 * uni.len();
    // parallelise over (script, first op)
    ctx.run_indexed("exhaustive_sequences", scr.len() * nops, |idx, acc| {
        let rng = &scr[idx / nops];
        let first = idx % nops;
        let dfs = Dfs { cfg, uni: &uni, cls: &cls, ncls, max_len, rng, bucketsize };
        let is_insert = first < uni.len();
        let i = first % uni.len();
        let seq0 = vec![(is_insert, i as u16)];
        let case = dfs.case(&seq0);
        if let Verdict::Fail { sig, msg } = Seq.eval(&case) {
            return Some((serde_json::to_value(&case).unwrap(), sig, msg));
        }
        let mut f = AnyFilter::new(&cfg, HKind::Split, rng);
        let mut counts = vec![0u32; ncls];
        if is_insert {
            if f.insert(uni[i]) == Ok(true) {
                counts[cls[i]] += 1;
            }
        } else {
            f.delete(uni[i]);
        }
        acc.pass_light(false, hash64(&(&cfg, idx)), || json!({"cfg": cfg, "ops(is_insert,key_index)": seq0}));
        let mut seq = seq0.clone();
        dfs.go(&f, &mut counts, &mut seq, (false, false, false), acc)
    });
    ctx.mark_exhaustive(
        "exhaustive_sequences",
        format!(
            "every sequence of insert/delete over the {} keys ({} classes) of cuckoo(bucketsize={}, n_buckets={}, l_fingerprint={}) under the Split hasher up to length {} (deletes on an empty filter only as first op), each under 4 RNG scripts (zeros, ones, alternating, generated); full query sweep and per-class copy count after every op",
            uni.len(), ncls, bucketsize, n_buckets, l_fp, max_len
        ),
    );
}

fn strategy(tier: Tier) -> BoxedStrategy<Case> {
    let maxops = tier.pick(120usize, 500usize);
    (
        prop_oneof![3 => cuckoo_cfg_small(), 2 => cuckoo_cfg()],
        prop_oneof![5 => Just(HKind::Split), 2 => Just(HKind::Sip), 2 => Just(HKind::Ident), 1 => (0u64..3).prop_map(HKind::Const), 1 => any::<u64>().prop_map(HKind::Mix), 1 => (1u64..9).prop_map(HKind::Mod)],
        rng_spec(),
        prop::collection::vec(
            prop_oneof![
                6 => (0u32..5, 0u32..8).prop_map(|(hi, lo)| KeySpec::Split { hi, lo }),
                1 => (any::<u32>(), any::<u32>()).prop_map(|(hi, lo)| KeySpec::Split { hi, lo }),
                1 => (0u8..30).prop_map(KeySpec::Small),
                // the ends of the hash range (under the Ident hasher the key is the hash the fingerprint is cut from)
                1 => prop_oneof![Just(u64::MAX), Just(u64::MAX - 1), Just(0u64), Just(1u64), Just(1u64 << 63), Just(u64::MAX >> 1)].prop_map(KeySpec::Raw),
            ],
            1..40,
        ),
        prop::collection::vec(prop_oneof![3 => any::<u16>().prop_map(Op::Insert), 2 => any::<u16>().prop_map(Op::Delete), 2 => (0u16..3).prop_map(|i| Op::Insert(i * 1500))], 0..maxops),
    )
        .prop_map(|(cfg, hk, rng, universe, ops)| Case { cfg, hk, rng, universe, ops })
        .boxed()
}

pub fn checks() -> Vec<Box<dyn DynCheck>> {
    vec![Box::new(Random), Box::new(Seq), Box::new(super::giant::Giant)]
}

pub fn run(ctx: &Ctx) {
    ctx.set_rule("(a) exhaustive: tiny tables under the Split hasher, every insert/delete sequence over all keys up to a length bound under 4 RNG scripts; (b) generated: cuckoo configurations (bucketsize 2..8, n_buckets 2..32, l_fingerprint 2..64), Split/Sip/Const/Mix/Mod hashers, scripted RNG, histories mixing repeated inserts of one element, deletes of absent elements and deletes after evictions. Oracle after every op: insert result (Ok(true) or Err, never Ok(false); success guaranteed below bucketsize elements), delete result, len, is_empty, query of every universe key, per-class deletable copies on a clone == class-multiset model; failed insert leaves copy counts unchanged. Non-trivial: a duplicate insert of one class and a delete, or an insert that drew RNG words (eviction), or a delete of an absent class on a non-empty filter. Distinct = hash of (config, rng script, op sequence). giant_tables: tables of 2^28 .. 2^32 buckets under the Ident hasher with 8 to 16 keys spread over the bucket range: absent before insert, present after, len after every insert/delete, absent and is_empty after deleting everything.");
    ctx.assume("fingerprint classes computed behaviourally from single-element filters; copy counts measured by deleting on clones");
    ctx.run_regressions(&[&Random, &Seq]);
    let t = ctx.tier;
    let cfgs: &[(usize, usize, usize, usize)] = match t {
        Tier::Quick => &[(2, 2, 2, 5), (2, 4, 2, 4), (3, 2, 2, 5)],
        Tier::Thorough => &[(2, 2, 2, 7), (2, 4, 2, 5), (3, 2, 2, 6), (2, 2, 3, 5)],
    };
    for &(bs, nb, l, len) in cfgs {
        if ctx.failed() {
            break;
        }
        exhaustive(ctx, bs, nb, l, len);
    }
    if !ctx.failed() {
        ctx.run_random(&Random, t.pick(100_000, 2_000_000), move || strategy(t));
        ctx.run_fixed(&super::giant::Giant, super::giant::cuckoo_cases());
        ctx.require_class("random_history", "eviction", 0.1);
        ctx.require_class("random_history", "duplicate_insert", 0.3);
        ctx.require_class("random_history", "delete_absent_class", 0.2);
    }
    if ctx.tier == Tier::Thorough && !ctx.failed() {
        crate::engine::fuzz::run_filter_ops(ctx, 2, 160_000);
    }
}
