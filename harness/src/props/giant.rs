//! Tables with 2^31 .. 2^33 slots / bits / counters (1 .. 4 GiB of zero pages, only the touched ones become
//! resident): the same properties at sizes where 32-bit intermediate arithmetic breaks. Sub-checks `giant_tables`
//! of C01 (Bloom), C02 (CountMinSketch), C13 (QuotientFilter) and C14 (CuckooFilter), a handful of fixed cases each.
use crate::engine::*;
use crate::support::hashers::{GenBH, HKind};
use crate::support::rng::SmRng;
use pdatastructs::countminsketch::CountMinSketch;
use pdatastructs::filters::bloomfilter::BloomFilter;
use pdatastructs::filters::cuckoofilter::CuckooFilter;
use pdatastructs::filters::quotientfilter::QuotientFilter;
use pdatastructs::filters::Filter;
use serde::{Deserialize, Serialize};

#[derive(Clone, Debug, Serialize, Deserialize)]
pub enum Case {
    /// Ident hasher: key = quotient << r | remainder
    Quotient { q: usize, r: usize },
    /// Ident hasher: bucket = key & (n_buckets - 1), fingerprint = 1 + key % (2^l - 1)
    Cuckoo { lg_buckets: u32, bucketsize: usize, l_fp: usize },
    Bloom { m: usize, k: usize, seed: u64 },
    Cms { w: usize, d: usize, seed: u64 },
    /// union of two Bloom filters / merge of two u8 sketches of this size (C06)
    BloomUnion { m: usize, k: usize, seed: u64 },
    CmsMerge { w: usize, d: usize, seed: u64 },
    /// union of quotient filters whose operand holds one cluster made of a run of `run` classes followed by `followers`
    /// occupied buckets (hundreds of runs pending at once while the cluster is walked); `wrap` starts it before the ring end
    QuotientManyRuns { q: usize, r: usize, run: u32, followers: u32, wrap: bool },
    /// a failing union of two large cuckoo filters (tens of thousands of fingerprints moved and rolled back)
    CuckooBigFailedUnion { lg_buckets: u32, na: u32, nb: u32, seed: u64 },
    /// BloomFilter::with_properties_and_hash(n, p) for n >= 2^32
    BloomProps { n: usize, p: f64, seed: u64 },
    /// CuckooFilter::with_properties_and_hash_4 / _8 (bucketsize 4 / 8) for n >= 2^31
    CuckooProps { bucketsize: u8, n: usize, p: f64, seed: u64 },
}

pub struct Giant;

fn mem_available_gib() -> f64 {
    let txt = std::fs::read_to_string("/proc/meminfo").unwrap_or_default();
    for l in txt.lines() {
        if let Some(rest) = l.strip_prefix("MemAvailable:") {
            if let Some(kb) = rest.split_whitespace().next().and_then(|v| v.parse::<f64>().ok()) {
                return kb / (1024.0 * 1024.0);
            }
        }
    }
    f64::INFINITY // unknown: do not skip
}


fn quotient(q: usize, r: usize) -> Result<u64, (String, String)> {
    let bh = GenBH(HKind::Ident);
    let mut f: QuotientFilter<u64, GenBH> = QuotientFilter::with_params_and_hash(q, r, bh);
    let n = 1u64 << q;
    let nrem = 1u64 << r.min(8);
    let key = |quot: u64, rem: u64| (quot << r) | rem;
    // quotients at both ends, around 2^31 / 2^32, and two runs that share slots (5, 5, 6) plus a run wrapping the ring end
    let mut quots: Vec<u64> = vec![0, 5, 6, 7, n / 2 - 1, n / 2, n - 2, n - 1, (1u64 << 31) - 1, 1u64 << 31, (1u64 << 31) + 1, (1u64 << 32).min(n) - 1];
    quots.retain(|&x| x < n);
    quots.sort_unstable();
    quots.dedup();
    let mut inserted: Vec<(u64, u64)> = vec![];
    let mut evals = 0u64;
    for &qu in &quots {
        if f.query(&key(qu, 0)) {
            return Err(("giant-quotient:false-positive-before-insert".into(), format!("query of class ({}, 0) is true on a filter that never saw it (q={}, r={})", qu, q, r)));
        }
    }
    for round in 0..nrem.min(3) {
        for &qu in &quots {
            // remainders 0, 1, 2 in turn: runs of up to three elements, neighbours shifted
            let k = key(qu, round);
            match f.insert(&k) {
                Ok(true) => inserted.push((qu, round)),
                Ok(false) => return Err(("giant-quotient:new-class-reported-known".into(), format!("insert of the new class ({}, {}) returned Ok(false) (q={}, r={}, {} classes held)", qu, round, q, r, inserted.len()))),
                Err(_) => return Err(("giant-quotient:full-although-space".into(), format!("insert of class ({}, {}) returned Err(Full) with {} of 2^{} slots used", qu, round, inserted.len(), q))),
            }
            evals += 1;
            if f.len() != inserted.len() {
                return Err(("giant-quotient:len".into(), format!("len() = {} after {} distinct classes (q={}, r={})", f.len(), inserted.len(), q, r)));
            }
        }
        for &(qu, rem) in &inserted {
            if !f.query(&key(qu, rem)) {
                return Err(("giant-quotient:false-negative".into(), format!("class ({}, {}) was inserted but query is false (q={}, r={}, {} classes held)", qu, rem, q, r, inserted.len())));
            }
            evals += 1;
        }
        // classes of the same quotients that were not inserted yet
        for &qu in &quots {
            for rem in (round + 1)..nrem.min(4) {
                if f.query(&key(qu, rem)) {
                    return Err(("giant-quotient:false-positive".into(), format!("class ({}, {}) was never inserted but query is true (q={}, r={}, {} classes held)", qu, rem, q, r, inserted.len())));
                }
                evals += 1;
            }
        }
    }
    for &(qu, rem) in inserted.iter().take(5) {
        if !matches!(f.insert(&key(qu, rem)), Ok(false)) {
            return Err(("giant-quotient:known-class-reported-new".into(), format!("re-insert of class ({}, {}) did not return Ok(false)", qu, rem)));
        }
    }
    Ok(evals)
}

fn cuckoo(lg: u32, bucketsize: usize, l_fp: usize) -> Result<u64, (String, String)> {
    let bh = GenBH(HKind::Ident);
    let n = 1u64 << lg;
    let mut f: CuckooFilter<u64, SmRng, GenBH> = CuckooFilter::with_params_and_hash(SmRng::new(7), bucketsize, n as usize, l_fp, bh);
    // keys spread over the bucket range; the high part varies the fingerprint. A key can only live in its two
    // candidate buckets, so the load per bucket neighbourhood stays far below what the buckets hold: one key per
    // bucket for narrow fingerprints (whose alternate buckets are the direct neighbours), two otherwise.
    let mut buckets: Vec<u64> = [0u64, 9, n / 2 - 20, n / 2, n - 40, n - 1, (1u64 << 31).min(n) - 80, (1u64 << 30) + 3].iter().map(|b| b % n).collect();
    buckets.sort_unstable();
    buckets.dedup();
    let reps = if l_fp < 8 || bucketsize < 4 { 1 } else { 2 };
    let mut keys: Vec<u64> = vec![];
    for (j, b) in buckets.iter().enumerate() {
        for rep in 0..reps as u64 {
            keys.push(b | ((1000 * j as u64 + 17 * rep + 1) << lg.max(33)));
        }
    }
    keys.sort_unstable();
    keys.dedup();
    let mut evals = 0u64;
    for k in &keys {
        if f.query(k) {
            return Err(("giant-cuckoo:false-positive-before-insert".into(), format!("query({:#x}) is true on an empty filter (n_buckets=2^{}, bucketsize={}, l_fp={})", k, lg, bucketsize, l_fp)));
        }
    }
    for (i, k) in keys.iter().enumerate() {
        if f.insert(k).is_err() {
            return Err(("giant-cuckoo:full-although-space".into(), format!("insert #{} returned Err(Full) on a table of 2^{} buckets", i + 1, lg)));
        }
        evals += 1;
        if f.len() != i + 1 {
            return Err(("giant-cuckoo:len".into(), format!("len() = {} after {} inserts", f.len(), i + 1)));
        }
    }
    for k in &keys {
        if !f.query(k) {
            return Err(("giant-cuckoo:false-negative".into(), format!("query({:#x}) is false after its insert (n_buckets=2^{}, bucketsize={}, l_fp={})", k, lg, bucketsize, l_fp)));
        }
        evals += 1;
    }
    for (i, k) in keys.iter().enumerate() {
        if !f.delete(k) {
            return Err(("giant-cuckoo:delete-fails".into(), format!("delete({:#x}) returned false although the element is in the filter", k)));
        }
        evals += 1;
        if f.len() != keys.len() - i - 1 {
            return Err(("giant-cuckoo:len".into(), format!("len() = {} after {} inserts and {} deletes", f.len(), keys.len(), i + 1)));
        }
    }
    if !f.is_empty() {
        return Err(("giant-cuckoo:not-empty-after-deletes".into(), "is_empty() is false after deleting everything".into()));
    }
    for k in &keys {
        if f.query(k) {
            return Err(("giant-cuckoo:present-after-delete".into(), format!("query({:#x}) is true after every element was deleted", k)));
        }
    }
    Ok(evals)
}

fn bloom(m: usize, k: usize, seed: u64) -> Result<u64, (String, String)> {
    let mut f: BloomFilter<u64, GenBH> = BloomFilter::with_params_and_hash(m, k, GenBH(HKind::Seeded(seed % 1000)));
    let keys: Vec<u64> = (0..200u64).map(|i| mix(seed, i) << 1).collect();
    let probes: Vec<u64> = (0..200u64).map(|i| (mix(seed ^ 0x99, i) << 1) | 1).collect();
    if (f.m(), f.k()) != (m, k) {
        return Err(("giant-bloom:getters".into(), format!("m()/k() = {}/{} after with_params({}, {})", f.m(), f.k(), m, k)));
    }
    for x in &keys {
        f.insert(x).unwrap();
    }
    if let Some(x) = keys.iter().find(|x| !f.query(x)) {
        return Err(("giant-bloom:false-negative".into(), format!("query({}) is false after its insert (m={}, k={})", x, m, k)));
    }
    // 200 keys set at most 200 k of >= 2^31 bits: a probe is a false positive with probability < (200 k / 2^31)^k
    let fp = probes.iter().filter(|x| f.query(x)).count();
    if fp > 1 {
        return Err(("giant-bloom:false-positives".into(), format!("{} of 200 never-inserted probes are reported present by a filter with {} bits holding 200 elements (k={})", fp, m, k)));
    }
    Ok(400)
}

fn cms(w: usize, d: usize, seed: u64) -> Result<u64, (String, String)> {
    let mut s: CountMinSketch<u64, u8, GenBH> = CountMinSketch::with_params_and_hasher(w, d, GenBH(HKind::Seeded(seed % 1000)));
    if (s.w(), s.d()) != (w, d) {
        return Err(("giant-cms:getters".into(), format!("w()/d() = {}/{} after with_params({}, {})", s.w(), s.d(), w, d)));
    }
    let keys: Vec<u64> = (0..60u64).map(|i| mix(seed, i)).collect();
    let mut total = 0u64;
    for (i, x) in keys.iter().enumerate() {
        let reps = 1 + (i % 3) as u64;
        for _ in 0..reps {
            let ret = s.add(x);
            total += 1;
            if ret != s.query_point(x) {
                return Err(("giant-cms:add-return!=query_point".into(), format!("add returned {} but query_point gives {} (w={}, d={})", ret, s.query_point(x), w, d)));
            }
        }
        let q = s.query_point(x) as u64;
        if q < reps || q > total {
            return Err(("giant-cms:bounds".into(), format!("query_point = {} for an element added {} times (stream total {}, w={}, d={})", q, reps, total, w, d)));
        }
    }
    Ok(total)
}

/// A filter dimensioned for n >= 2^31 elements that holds only 20 000: its false positive frequency must be far
/// below p (it is a lower bound of the frequency at n elements), it must have at least n bits / slots, and no
/// insert may fail.
fn props(bloom: bool, bucketsize: u8, n: usize, p: f64, seed: u64) -> Result<u64, (String, String)> {
    let keys: Vec<u64> = (0..20_000u64).map(|i| mix(seed, i) << 1).collect();
    let probes: Vec<u64> = (0..20_000u64).map(|i| (mix(seed ^ 0x99, i) << 1) | 1).collect();
    let bh = GenBH(HKind::Seeded(seed % 1000));
    let fp;
    if bloom {
        let mut f: BloomFilter<u64, GenBH> = BloomFilter::with_properties_and_hash(n, p, bh);
        if f.m() < n {
            return Err(("giant-bloom-props:undersized".into(), format!("with_properties({}, {}) gives m() = {} bits, fewer than one bit per expected element", n, p, f.m())));
        }
        for x in &keys {
            f.insert(x).unwrap();
        }
        if let Some(x) = keys.iter().find(|x| !f.query(x)) {
            return Err(("giant-bloom-props:false-negative".into(), format!("query({}) is false after its insert (n={}, p={})", x, n, p)));
        }
        fp = probes.iter().filter(|x| f.query(x)).count();
    } else {
        let mut f: CuckooFilter<u64, SmRng, GenBH> = if bucketsize == 4 { CuckooFilter::with_properties_and_hash_4(p, n, SmRng::new(seed), bh) } else { CuckooFilter::with_properties_and_hash_8(p, n, SmRng::new(seed), bh) };
        let slots = f.n_buckets() as u128 * f.bucketsize() as u128;
        if slots < n as u128 {
            return Err(("giant-cuckoo-props:undersized".into(), format!("with_properties_{}({}, {}) gives {} buckets of {} slots, fewer slots than expected elements", bucketsize, p, n, f.n_buckets(), f.bucketsize())));
        }
        for (i, x) in keys.iter().enumerate() {
            if f.insert(x).is_err() {
                return Err(("giant-cuckoo-props:full-before-n".into(), format!("insert #{} of {} expected elements returned Err(Full) (p={})", i + 1, n, p)));
            }
        }
        if let Some(x) = keys.iter().find(|x| !f.query(x)) {
            return Err(("giant-cuckoo-props:false-negative".into(), format!("query({}) is false after its insert (n={}, p={})", x, n, p)));
        }
        fp = probes.iter().filter(|x| f.query(x)).count();
    }
    // allowed: 1.3 * p; with 20 000 of >= 2^31 elements in place the expectation is < 1e-4 * p
    if fp as f64 > 1.3 * p * probes.len() as f64 {
        return Err((
            if bloom { "giant-bloom-props:rate" } else { "giant-cuckoo-props:rate" }.into(),
            format!("{} of {} never-inserted probes are reported present by a filter built for n = {}, p = {} that holds only {} elements", fp, probes.len(), n, p, keys.len()),
        ));
    }
    Ok(40_000)
}

fn bloom_union(m: usize, k: usize, seed: u64) -> Result<u64, (String, String)> {
    let bh = GenBH(HKind::Seeded(seed % 1000));
    let mut a: BloomFilter<u64, GenBH> = BloomFilter::with_params_and_hash(m, k, bh);
    let mut b: BloomFilter<u64, GenBH> = BloomFilter::with_params_and_hash(m, k, bh);
    let mut both: BloomFilter<u64, GenBH> = BloomFilter::with_params_and_hash(m, k, bh);
    let ka: Vec<u64> = (0..100u64).map(|i| mix(seed, i) << 1).collect();
    let kb: Vec<u64> = (0..100u64).map(|i| mix(seed ^ 0x1234, i) << 1).collect();
    let probes: Vec<u64> = (0..200u64).map(|i| (mix(seed ^ 0x99, i) << 1) | 1).collect();
    for x in &ka {
        a.insert(x).unwrap();
        both.insert(x).unwrap();
    }
    for x in &kb {
        b.insert(x).unwrap();
        both.insert(x).unwrap();
    }
    if a.union(&b).is_err() {
        return Err(("giant-bloom-union:err".into(), format!("union of two filters with equal parameters returned Err (m={}, k={})", m, k)));
    }
    if let Some(x) = ka.iter().chain(kb.iter()).find(|x| !a.query(x)) {
        return Err(("giant-bloom-union:false-negative".into(), format!("query({}) is false after the union although one operand held the element (m={}, k={})", x, m, k)));
    }
    if let Some(x) = probes.iter().find(|x| a.query(x) != both.query(x)) {
        return Err(("giant-bloom-union:!=sequential".into(), format!("query({}) differs between the union and a filter that saw both streams (m={}, k={})", x, m, k)));
    }
    if let Some(x) = kb.iter().find(|x| !b.query(x)) {
        return Err(("giant-bloom-union:operand-changed".into(), format!("the operand lost element {}", x)));
    }
    Ok(600)
}

fn cms_merge(w: usize, d: usize, seed: u64) -> Result<u64, (String, String)> {
    let bh = GenBH(HKind::Seeded(seed % 1000));
    let mut a: CountMinSketch<u64, u8, GenBH> = CountMinSketch::with_params_and_hasher(w, d, bh);
    let mut b: CountMinSketch<u64, u8, GenBH> = CountMinSketch::with_params_and_hasher(w, d, bh);
    let mut both: CountMinSketch<u64, u8, GenBH> = CountMinSketch::with_params_and_hasher(w, d, bh);
    let keys: Vec<u64> = (0..80u64).map(|i| mix(seed, i)).collect();
    for (i, x) in keys.iter().enumerate() {
        if i % 2 == 0 {
            a.add(x);
        }
        if i % 3 == 0 {
            b.add_n(x, &2);
        }
        if i % 2 == 0 {
            both.add(x);
        }
        if i % 3 == 0 {
            both.add_n(x, &2);
        }
    }
    a.merge(&b);
    for (i, x) in keys.iter().enumerate() {
        let t = (i % 2 == 0) as u8 + 2 * (i % 3 == 0) as u8;
        let q = a.query_point(x);
        if q < t {
            return Err(("giant-cms-merge:underestimate".into(), format!("query_point = {} < true weight {} after merge (w={}, d={})", q, t, w, d)));
        }
        if q != both.query_point(x) {
            return Err(("giant-cms-merge:!=sequential".into(), format!("query_point = {} after merge but {} in a sketch that saw both streams (w={}, d={})", q, both.query_point(x), w, d)));
        }
    }
    Ok(160)
}

fn quotient_many_runs(q: usize, r: usize, run: u32, followers: u32, wrap: bool) -> Result<u64, (String, String)> {
    let bh = GenBH(HKind::Ident);
    let n = 1u64 << q;
    let key = |quot: u64, rem: u64| ((quot % n) << r) | rem;
    let start = if wrap { n - (run as u64 / 2).min(n / 4) - 3 } else { 17 };
    let mut b: QuotientFilter<u64, GenBH> = QuotientFilter::with_params_and_hash(q, r, bh);
    let mut a: QuotientFilter<u64, GenBH> = QuotientFilter::with_params_and_hash(q, r, bh);
    let mut both: QuotientFilter<u64, GenBH> = QuotientFilter::with_params_and_hash(q, r, bh);
    let mut kb: Vec<u64> = vec![];
    for d in 1..=followers as u64 {
        kb.push(key(start + d, d % 5));
    }
    for i in 0..run as u64 {
        kb.push(key(start, i));
    }
    let ka: Vec<u64> = vec![key(start + n / 2, 1), key(start + n / 2 + 1, 2), key(start.wrapping_sub(2) % n, 3)];
    for x in &kb {
        if !matches!(b.insert(x), Ok(true)) {
            return Err(("many-runs:setup".into(), format!("setup insert of {:#x} did not return Ok(true)", x)));
        }
    }
    for x in &ka {
        a.insert(x).map_err(|_| ("many-runs:setup".to_string(), "setup insert failed".to_string()))?;
        both.insert(x).map_err(|_| ("many-runs:setup".to_string(), "setup insert failed".to_string()))?;
    }
    for x in &kb {
        both.insert(x).map_err(|_| ("many-runs:setup".to_string(), "setup insert failed".to_string()))?;
    }
    if a.union(&b).is_err() {
        return Err(("many-runs:union-err".into(), format!("union returned Err although {} + {} classes fit 2^{} slots", ka.len(), kb.len(), q)));
    }
    if a.len() != ka.len() + kb.len() {
        return Err(("many-runs:len".into(), format!("len() = {} after the union of {} and {} distinct classes", a.len(), ka.len(), kb.len())));
    }
    if let Some(x) = ka.iter().chain(kb.iter()).find(|x| !a.query(x)) {
        return Err(("many-runs:false-negative".into(), format!("query({:#x}) is false after the union although an operand held the class (q={}, r={}, run {}, {} followers)", x, q, r, run, followers)));
    }
    // never inserted classes in and around the cluster
    for d in 0..=(followers as u64 + 2) {
        let probe = key(start + d, 7 + run as u64);
        if a.query(&probe) != both.query(&probe) {
            return Err(("many-runs:!=sequential".into(), format!("query({:#x}) = {} after the union but {} in a filter that saw both streams", probe, a.query(&probe), both.query(&probe))));
        }
    }
    if let Some(x) = kb.iter().find(|x| !b.query(x)) {
        return Err(("many-runs:operand-changed".into(), format!("the operand lost class {:#x}", x)));
    }
    Ok((ka.len() + kb.len()) as u64 * 2)
}

fn cuckoo_big_failed_union(lg: u32, na: u32, nb: u32, seed: u64) -> Result<u64, (String, String)> {
    let bh = GenBH(HKind::Seeded(seed % 1000));
    let nbk = 1usize << lg;
    let mut a: CuckooFilter<u64, SmRng, GenBH> = CuckooFilter::with_params_and_hash(SmRng::new(seed), 4, nbk, 24, bh);
    let mut b: CuckooFilter<u64, SmRng, GenBH> = CuckooFilter::with_params_and_hash(SmRng::new(seed ^ 5), 4, nbk, 24, bh);
    let ka: Vec<u64> = (0..na as u64).map(|i| mix(seed, i) << 1).collect();
    let kb: Vec<u64> = (0..nb as u64).map(|i| (mix(seed ^ 0x77, i) << 1) | 1).collect();
    for x in &ka {
        a.insert(x).map_err(|_| ("big-union:setup".to_string(), "filling a failed".to_string()))?;
    }
    for x in &kb {
        b.insert(x).map_err(|_| ("big-union:setup".to_string(), "filling b failed".to_string()))?;
    }
    let before_len = a.len();
    let probes: Vec<u64> = ka.iter().copied().chain(kb.iter().copied().take(20_000)).chain((0..20_000u64).map(|i| mix(seed ^ 0x4242, i) | (1 << 63))).collect();
    let before: Vec<bool> = probes.iter().map(|x| a.query(x)).collect();
    if a.union(&b).is_ok() {
        // fits after all: then everything must be present
        if let Some(x) = ka.iter().chain(kb.iter()).find(|x| !a.query(x)) {
            return Err(("big-union:false-negative".into(), format!("query({}) false after a successful union", x)));
        }
        return Ok(probes.len() as u64);
    }
    if a.len() != before_len {
        return Err(("big-union:failed-union-changes-len".into(), format!("len() {} -> {} across a failed union", before_len, a.len())));
    }
    let changed = probes.iter().zip(before.iter()).filter(|(x, &w)| a.query(x) != w).count();
    if changed > 0 {
        return Err(("big-union:failed-union-changes-query".into(), format!("union returned Err but query() changed for {} of {} probed elements (2^{} buckets of 4, {} + {} elements)", changed, probes.len(), lg, na, nb)));
    }
    if let Some(x) = kb.iter().take(20_000).find(|x| !b.query(x)) {
        return Err(("big-union:operand-changed".into(), format!("the operand lost element {}", x)));
    }
    Ok(probes.len() as u64)
}

impl Check for Giant {
    type Case = Case;
    fn name(&self) -> &'static str {
        "giant_tables"
    }
    fn eval(&self, c: &Case) -> Verdict {
        // the tables are lazily zeroed, but up to 3.5 GiB become resident in the union cases: on a machine without
        // that much headroom a failing allocation would abort the process, so the case is skipped instead
        if mem_available_gib() < 24.0 {
            return Verdict::Pass(Info::new(false, hash_json(c)).class("skipped_less_than_24GiB_available"));
        }
        let c2 = c.clone();
        let r = catch(move || match c2 {
            Case::Quotient { q, r } => quotient(q, r),
            Case::Cuckoo { lg_buckets, bucketsize, l_fp } => cuckoo(lg_buckets, bucketsize, l_fp),
            Case::Bloom { m, k, seed } => bloom(m, k, seed),
            Case::Cms { w, d, seed } => cms(w, d, seed),
            Case::BloomUnion { m, k, seed } => bloom_union(m, k, seed),
            Case::CmsMerge { w, d, seed } => cms_merge(w, d, seed),
            Case::QuotientManyRuns { q, r, run, followers, wrap } => quotient_many_runs(q, r, run, followers, wrap),
            Case::CuckooBigFailedUnion { lg_buckets, na, nb, seed } => cuckoo_big_failed_union(lg_buckets, na, nb, seed),
            Case::BloomProps { n, p, seed } => props(true, 0, n, p, seed),
            Case::CuckooProps { bucketsize, n, p, seed } => props(false, bucketsize, n, p, seed),
        });
        match r {
            Err(p) => fail(format!("giant-{}", panic_sig(&p)), format!("{:?}: {}", c, p)),
            Ok(Err((sig, msg))) => fail(sig, msg),
            Ok(Ok(evals)) => {
                let mut i = Info::new(true, hash_json(c));
                i.inner_evals = evals;
                Verdict::Pass(i)
            }
        }
    }
}

pub fn quotient_cases() -> Vec<Case> {
    vec![Case::Quotient { q: 31, r: 2 }, Case::Quotient { q: 32, r: 1 }, Case::Quotient { q: 33, r: 1 }, Case::Quotient { q: 30, r: 5 }]
}

pub fn cuckoo_cases() -> Vec<Case> {
    vec![Case::Cuckoo { lg_buckets: 31, bucketsize: 2, l_fp: 2 }, Case::Cuckoo { lg_buckets: 32, bucketsize: 2, l_fp: 2 }, Case::Cuckoo { lg_buckets: 28, bucketsize: 4, l_fp: 16 }, Case::Cuckoo { lg_buckets: 30, bucketsize: 2, l_fp: 9 }]
}

pub fn bloom_cases(seed: u64) -> Vec<Case> {
    vec![Case::Bloom { m: (1usize << 31) + 11, k: 3, seed }, Case::Bloom { m: (1usize << 32) + 15, k: 4, seed: seed ^ 1 }, Case::Bloom { m: 1usize << 33, k: 2, seed: seed ^ 2 }]
}

pub fn cms_cases(seed: u64) -> Vec<Case> {
    vec![Case::Cms { w: (1usize << 31) + 3, d: 1, seed }, Case::Cms { w: (1usize << 32) + 1, d: 1, seed: seed ^ 1 }, Case::Cms { w: 1usize << 30, d: 3, seed: seed ^ 2 }]
}

pub fn props_cases(seed: u64) -> Vec<Case> {
    vec![
        Case::BloomProps { n: 1usize << 32, p: 0.5, seed },
        Case::BloomProps { n: (1usize << 32) + 50, p: 0.5, seed: seed ^ 1 },
        Case::BloomProps { n: (1usize << 31) + 7, p: 0.1, seed: seed ^ 2 },
        Case::CuckooProps { bucketsize: 4, n: (1usize << 31) + 5, p: 0.5, seed: seed ^ 3 },
        Case::CuckooProps { bucketsize: 8, n: 1usize << 32, p: 0.9, seed: seed ^ 4 },
        Case::CuckooProps { bucketsize: 4, n: (1usize << 32) + 50, p: 0.9, seed: seed ^ 5 },
    ]
}

pub fn union_cases(seed: u64) -> Vec<Case> {
    vec![
        Case::BloomUnion { m: (1usize << 32) + 15, k: 3, seed },
        Case::CmsMerge { w: (1usize << 31) + 3, d: 1, seed: seed ^ 1 },
        Case::QuotientManyRuns { q: 11, r: 16, run: 320, followers: 330, wrap: false },
        Case::QuotientManyRuns { q: 12, r: 12, run: 700, followers: 600, wrap: true },
        Case::QuotientManyRuns { q: 10, r: 9, run: 260, followers: 270, wrap: false },
    ]
}

pub fn failed_union_cases(seed: u64) -> Vec<Case> {
    vec![Case::CuckooBigFailedUnion { lg_buckets: 15, na: 60_000, nb: 75_000, seed }, Case::CuckooBigFailedUnion { lg_buckets: 15, na: 67_000, nb: 67_000, seed: seed ^ 1 }]
}
