//! C15 — T-Digest quantile and cdf are monotone, bounded and mutually consistent.
use crate::engine::*;
use crate::support::td::*;
use proptest::prelude::*;
use serde::{Deserialize, Serialize};

#[derive(Clone, Debug, Serialize, Deserialize)]
pub enum Data {
    /// explicit (value, weight) list
    Explicit(Vec<(f64, f64)>),
    /// `n` values drawn from `levels` distinct levels (heavy ties) spread over [lo, lo+span]
    Ties { n: u32, levels: u32, lo: f64, span: f64, seed: u64, weighted: bool },
    /// uniform values over [lo, lo+span]
    Uniform { n: u32, lo: f64, span: f64, seed: u64, weighted: bool },
    /// half of the values in [-1.7e308, -1e308], half in [1e308, 1.7e308], all with the small weight `w`
    /// (so that the weighted sum stays representable): max - min and differences of neighbours exceed f64::MAX
    Straddle { n: u32, seed: u64, w: f64 },
}

#[derive(Clone, Debug, Serialize, Deserialize)]
pub struct Case {
    pub scale: Scale,
    pub delta: f64,
    pub backlog: usize,
    pub data: Data,
    pub qs: Vec<f64>,
    pub xs_rel: Vec<f64>,
    /// all values are multiplied by 10^scale_exp
    #[serde(default)]
    pub scale_exp: i8,
    /// all weights are multiplied by 10^weight_exp (the shape of a digest does not depend on the unit of its weights)
    #[serde(default)]
    pub weight_exp: i16,
}

/// 10^e for |e| <= 100; beyond that the exponent is stretched so that +-127 reaches 10^+-289 (values next to the
/// ends of the f64 range: products of two values, or of a value and a weight, overflow or underflow there)
pub fn unit_of(e: i8) -> f64 {
    let a = (e as i32).abs();
    let x = if a <= 100 { a } else { 100 + (a - 100) * 7 };
    10f64.powi(if e < 0 { -x } else { x })
}

pub fn materialise(d: &Data) -> Vec<(f64, f64)> {
    fn weight(g: &mut stat::SplitMix64, weighted: bool) -> f64 {
        if !weighted {
            return 1.0;
        }
        match g.below(4) {
            0 => 1.0,
            1 => (g.below(9) + 1) as f64,
            _ => 10f64.powf(g.f64() * 12.0 - 6.0),
        }
    }
    match d {
        Data::Explicit(v) => v.clone(),
        Data::Ties { n, levels, lo, span, seed, weighted } => {
            let mut g = stat::SplitMix64(*seed);
            let l = (*levels).max(1) as u64;
            (0..*n)
                .map(|_| {
                    let lvl = g.below(l) as f64;
                    let x = lo + span * lvl / (l as f64);
                    (x, weight(&mut g, *weighted))
                })
                .collect()
        }
        Data::Uniform { n, lo, span, seed, weighted } => {
            let mut g = stat::SplitMix64(*seed);
            (0..*n).map(|_| (lo + span * g.f64(), weight(&mut g, *weighted))).collect()
        }
        Data::Straddle { n, seed, w } => {
            let mut g = stat::SplitMix64(*seed);
            (0..*n)
                .map(|i| {
                    let m = 1.0e308 + 0.7e308 * g.f64();
                    (if i % 2 == 0 { -m } else { m }, *w)
                })
                .collect()
        }
    }
}

pub fn build(scale: Scale, delta: f64, backlog: usize, data: &[(f64, f64)]) -> AnyTD {
    let mut d = AnyTD::new(scale, delta, backlog);
    for &(x, w) in data {
        if w == 1.0 {
            d.insert(x);
        } else {
            d.insert_weighted(x, w);
        }
    }
    d
}

pub struct C15;

impl Check for C15 {
    type Case = Case;
    fn name(&self) -> &'static str {
        "shape"
    }
    fn eval(&self, c: &Case) -> Verdict {
        let unit = unit_of(c.scale_exp);
        let wunit = 10f64.powi(c.weight_exp as i32);
        let data: Vec<(f64, f64)> = materialise(&c.data).into_iter().map(|(x, w)| (x * unit, w * wunit)).filter(|&(x, w)| x.is_finite() && w.is_finite() && w >= 0.0 && (x * w).is_finite() && (w == 0.0 || (x == 0.0 || (x * w).abs() >= 1e-290))).collect();
        // domain: the weighted sum and the total weight of the data are representable (a digest stores sums)
        let abs_sum: f64 = data.iter().map(|&(x, w)| (x * w).abs()).sum();
        let wsum: f64 = data.iter().map(|&(_, w)| w).sum();
        if !(abs_sum < 4e307) || !(wsum < f64::MAX) {
            return Verdict::Pass(Info::new(false, hash_json(c)).class("skipped_sum_not_representable"));
        }
        let d = match catch(|| build(c.scale, c.delta, c.backlog, &data)) {
            Ok(d) => d,
            Err(p) => return fail(panic_sig(&p), format!("insert panicked: {}", p)),
        };
        let pos: Vec<(f64, f64)> = data.iter().copied().filter(|&(_, w)| w > 0.0).collect();
        let cfg = format!("{} delta={} backlog={}", c.scale.name(), c.delta, c.backlog);
        macro_rules! guard {
            ($what:expr, $e:expr) => {
                match catch(|| $e) {
                    Ok(v) => v,
                    Err(p) => {
                        let loc = if p.contains("a <= b") { "panic:interpolate:a<=b".to_string() } else if p.contains("contains(&t)") { "panic:interpolate:t".to_string() } else { panic_sig(&p) };
                        return fail(loc, format!("{} panicked: {} [{}; {} inserts]", $what, p, cfg, pos.len()));
                    }
                }
            };
        }
        if pos.is_empty() {
            let q = guard!("quantile(0.5) on empty", d.quantile(0.5));
            let cd = guard!("cdf(0) on empty", d.cdf(0.0));
            if !q.is_nan() {
                return fail("empty-quantile-not-NaN", format!("empty digest: quantile(0.5) = {}", q));
            }
            if cd != 0.0 {
                return fail("empty-cdf-not-0", format!("empty digest: cdf(0) = {}", cd));
            }
            return Verdict::Pass(Info::new(false, hash_json(c)).class("empty"));
        }
        let mn = pos.iter().map(|p| p.0).fold(f64::INFINITY, f64::min);
        let mx = pos.iter().map(|p| p.0).fold(f64::NEG_INFINITY, f64::max);
        let total: f64 = pos.iter().map(|p| p.1).sum();
        let wmin = pos.iter().map(|p| p.1).fold(f64::INFINITY, f64::min);
        let ratio = (total / wmin).max(1.0);
        let scale_v = mn.abs().max(mx.abs()).max(mx - mn).min(f64::MAX).max(f64::MIN_POSITIVE);
        let tau = 16.0 * f64::EPSILON * scale_v * ratio;
        let eps = 16.0 * f64::EPSILON * ratio;
        if d.min() != mn || d.max() != mx {
            return fail("min-max", format!("min()/max() = {}/{} but data range is {}/{}", d.min(), d.max(), mn, mx));
        }
        // q grid
        let mut qs: Vec<f64> = (0..=100).map(|i| i as f64 / 100.0).collect();
        qs.extend(c.qs.iter().copied().filter(|q| (0.0..=1.0).contains(q)));
        let nf = pos.len() as f64;
        qs.extend([f64::EPSILON, 1.0 - f64::EPSILON, 1e-9, 1.0 - 1e-9, 0.25 / nf, 1.0 - 0.25 / nf, 0.5 / nf, 1.0 - 0.5 / nf, 1.0 / nf, 1.0 - 1.0 / nf]);
        qs.retain(|q| (0.0..=1.0).contains(q));
        qs.sort_by(|a, b| a.partial_cmp(b).unwrap());
        qs.dedup();
        let mut prev = f64::NEG_INFINITY;
        let mut prev_q = 0.0;
        let mut xq: Vec<(f64, f64)> = vec![];
        for &q in &qs {
            let x = guard!(format!("quantile({})", q), d.quantile(q));
            let x2 = guard!(format!("quantile({})", q), d.quantile(q));
            if x.to_bits() != x2.to_bits() {
                return fail("quantile-not-repeatable", format!("quantile({}) returned {} then {}", q, x, x2));
            }
            if x.is_nan() {
                return fail("quantile-NaN", format!("quantile({}) is NaN on a non-empty digest [{}]", q, cfg));
            }
            if x < mn - tau || x > mx + tau {
                return fail(if x < mn { "quantile<min" } else { "quantile>max" }, format!("quantile({}) = {} outside [min, max] = [{}, {}] (tolerance {:e}) [{}]", q, x, mn, mx, tau, cfg));
            }
            if x < prev - tau {
                return fail("quantile-not-monotone", format!("quantile({}) = {} < quantile({}) = {} (tolerance {:e}) [{}]", q, x, prev_q, prev, tau, cfg));
            }
            if q == 0.0 && (x - mn).abs() > tau {
                return fail("q0!=min", format!("quantile(0) = {} but min() = {} [{}]", x, mn, cfg));
            }
            if q == 1.0 && (x - mx).abs() > tau {
                return fail("q1!=max", format!("quantile(1) = {} but max() = {} [{}; {} inserts]", x, mx, cfg, pos.len()));
            }
            prev = prev.max(x);
            prev_q = q;
            xq.push((q, x));
        }
        // inverse consistency q -> x -> q. It is exact (up to tol) only while differences of neighbouring values are
        // representable; when max - min exceeds f64::MAX the interpolation parameter degenerates (inf / inf, clamped)
        // and the two functions agree only "to within the digest's resolution", which is what the property asks for:
        // the exact form of the check is skipped there, the calls are still made (no panic, no NaN).
        let exact_inverse = (mx - mn).is_finite();
        for &(q, x) in &xq {
            if !exact_inverse {
                let up = guard!(format!("cdf({})", x), d.cdf(x));
                if up.is_nan() || !(-eps..=1.0 + eps).contains(&up) {
                    return fail("cdf-out-of-range", format!("cdf(quantile({})) = {} [{}]", q, up, cfg));
                }
                continue;
            }
            let up = guard!(format!("cdf({})", x + tau), d.cdf(x + tau));
            if up < q - eps {
                return fail(
                    "cdf∘quantile<q",
                    format!("x = quantile({}) = {}; cdf(x + tol) = {} < q (tolerance {:e}) [{}; {} inserts, range {}..{}]", q, x, up, eps, cfg, pos.len(), mn, mx),
                );
            }
            let lowq = guard!(format!("cdf({})", x - tau), d.cdf(x - tau)).min(1.0).max(0.0);
            let back = guard!(format!("quantile({})", lowq), d.quantile(lowq));
            if back > x + tau {
                return fail(
                    "quantile∘cdf>x",
                    format!("x = quantile({}) = {}; cdf(x - tol) = {}; quantile of that = {} > x (tolerance {:e}) [{}; {} inserts]", q, x, lowq, back, tau, cfg, pos.len()),
                );
            }
        }
        // x grid
        let span = (mx - mn).max(1.0);
        let mut xs: Vec<f64> = if span.is_finite() {
            (0..=60).map(|i| mn - 1.0 + (span + 2.0) * (i as f64) / 60.0).collect()
        } else {
            // max - min overflows: convex combinations instead of min + t * span
            (0..=60).map(|i| i as f64 / 60.0).map(|t| mn * (1.0 - t) + mx * t).collect()
        };
        xs.extend(c.xs_rel.iter().map(|r| if span.is_finite() { mn + (mx - mn) * r } else { mn * (1.0 - r) + mx * r }));
        xs.extend(pos.iter().take(60).map(|p| p.0));
        xs.extend([mn, mx, mn - tau, mx + tau, f64::NEG_INFINITY, f64::INFINITY, f64::MIN, f64::MAX]);
        xs.retain(|x| !x.is_nan());
        xs.sort_by(|a, b| a.partial_cmp(b).unwrap());
        xs.dedup();
        let mut prevc = 0.0f64;
        let mut prevx = f64::NEG_INFINITY;
        for &x in &xs {
            let p = guard!(format!("cdf({})", x), d.cdf(x));
            let p2 = guard!(format!("cdf({})", x), d.cdf(x));
            if p.to_bits() != p2.to_bits() {
                return fail("cdf-not-repeatable", format!("cdf({}) returned {} then {}", x, p, p2));
            }
            if p.is_nan() || p < -eps || p > 1.0 + eps {
                return fail("cdf-out-of-[0,1]", format!("cdf({}) = {} [{}]", x, p, cfg));
            }
            if x < mn && p != 0.0 {
                return fail("cdf-below-min!=0", format!("cdf({}) = {} although min() = {} [{}]", x, p, mn, cfg));
            }
            if x >= mx && (p - 1.0).abs() > eps {
                return fail("cdf(max)<1", format!("cdf({}) = {} although max() = {} [{}; {} inserts]", x, p, mx, cfg, pos.len()));
            }
            if p < prevc - eps {
                return fail("cdf-not-monotone", format!("cdf({}) = {} < cdf({}) = {} [{}]", x, p, prevx, prevc, cfg));
            }
            prevc = prevc.max(p);
            prevx = x;
            // x -> q -> x : quantile(cdf(x)) must not lie above x beyond the flat part
            if x >= mn && x <= mx && exact_inverse {
                let back = guard!(format!("quantile({})", p), d.quantile(p.min(1.0).max(0.0)));
                let again = guard!(format!("cdf({})", back + tau), d.cdf(back + tau));
                if again < p.min(1.0) - eps {
                    return fail("cdf∘quantile<q", format!("p = cdf({}) = {}; y = quantile(p) = {}; cdf(y + tol) = {} < p [{}]", x, p, back, again, cfg));
                }
            }
        }
        let nc = d.n_centroids();
        let fused = pos.len() > nc;
        let last_below_max = d.quantile(1.0 - 1.0 / (4.0 * nf)) < mx;
        let nontrivial = nc >= 2 && fused && last_below_max;
        let mut info = Info::new(nontrivial, hash_json(c))
            .class(c.scale.name())
            .class_if(fused, "fused_centroids")
            .class_if(last_below_max, "last_centroid_below_max")
            .class_if(wmin != 1.0 || total != nf, "weighted")
            .class_if(c.scale_exp != 0, "rescaled_values")
            .class_if(c.weight_exp != 0, "rescaled_weights")
            .class_if(matches!(c.data, Data::Ties { .. }), "heavy_ties")
            .class_if(matches!(c.data, Data::Straddle { .. }), "range_exceeds_f64_max");
        info.inner_evals = (qs.len() + xs.len()) as u64;
        Verdict::Pass(info)
    }
}

pub fn delta_strategy() -> impl Strategy<Value = f64> {
    prop_oneof![
        2 => prop_oneof![Just(1.1f64), Just(2.0), Just(2.5), Just(5.0), Just(10.0), Just(20.0), Just(50.0), Just(100.0), Just(200.0), Just(1000.0)],
        1 => prop_oneof![Just(1.001f64), Just(1.01), Just(1.05), 1.0001f64..1.1],
        1 => 1.01f64..1000.0,
        1 => 1.01f64..30.0,
    ]
}

pub fn backlog_strategy() -> impl Strategy<Value = usize> {
    prop_oneof![4 => Just(0usize), 4 => Just(1), 4 => Just(10), 4 => Just(1000), 4 => 0usize..300, 1 => prop_oneof![Just(usize::MAX), Just(usize::MAX - 1), Just(1usize << 62)]]
}

fn strategy(tier: Tier) -> BoxedStrategy<Case> {
    let nmax = tier.pick(2_000u32, 50_000u32);
    let lo = prop_oneof![Just(0.0f64), Just(-1.0), Just(1.0), Just(0.1), Just(1e11), Just(-5e11), -1e3f64..1e3, Just(1e-3)];
    let span = prop_oneof![Just(1.0f64), Just(0.3), Just(1e-3), Just(1e3), Just(2e11), Just(1e12), 1e-3f64..1e6];
    let nsmall = prop_oneof![1u32..12, 1u32..200, 1u32..nmax];
    let data = prop_oneof![
        3 => prop::collection::vec(
            (prop_oneof![Just(0.1f64), Just(0.2), Just(0.3), Just(1e11), Just(2e11), Just(3e11), -10.0f64..10.0, (0i32..6).prop_map(|i| i as f64)],
             prop_oneof![4 => Just(1.0f64), 1 => Just(0.0), 1 => Just(3.0), 1 => 1e-6f64..1e6, 1 => Just(1e-6), 1 => Just(1e6)]),
            0..40
        ).prop_map(Data::Explicit),
        4 => (nsmall.clone(), 1u32..12, lo.clone(), span.clone(), any::<u64>(), any::<bool>()).prop_map(|(n, levels, lo, span, seed, weighted)| Data::Ties { n, levels, lo, span, seed, weighted }),
        3 => (nsmall, lo, span, any::<u64>(), any::<bool>()).prop_map(|(n, lo, span, seed, weighted)| Data::Uniform { n, lo, span, seed, weighted }),
    ];
    let straddle = (2u32..60, any::<u64>(), prop_oneof![Just(1e-4f64), Just(1e-6), Just(1e-3)]).prop_map(|(n, seed, w)| Data::Straddle { n, seed, w });
    let scale_exp = prop_oneof![16 => Just(0i8), 4 => -30i8..=30, 4 => prop_oneof![Just(-19i8), Just(-25), Just(20)], 1 => prop_oneof![Just(100i8), Just(-100), Just(120), Just(-120), Just(127), Just(-127), 101i8..=127, -127i8..=-101]];
    // rarely a delta far larger than n (nothing is ever fused); n is then capped, since every insert
    // with a small backlog re-sorts all centroids
    let delta = prop_oneof![24 => delta_strategy(), 1 => prop_oneof![Just(1e4f64), Just(1e5)]];
    // weight units: mostly 1; sometimes 10^+-30; rarely such that the total weight comes close to f64::MAX or stays tiny
    let weight_exp = prop_oneof![20 => Just(0i16), 3 => -30i16..=30, 1 => prop_oneof![Just(290i16), Just(295), Just(300), Just(302), Just(304), Just(-250), Just(-280)]];
    (scale(), delta, backlog_strategy(), data, prop::collection::vec(0.0f64..=1.0, 0..6), prop::collection::vec(-0.1f64..1.1, 0..6), scale_exp, weight_exp)
        .prop_flat_map(move |t| (Just(t), prop_oneof![60 => Just(None), 1 => straddle.clone().prop_map(Some)]))
        .prop_map(|((scale, delta, backlog, data, qs, xs_rel, scale_exp, weight_exp), st)| {
            // values next to +-f64::MAX: no rescaling on top
            let (data, scale_exp, weight_exp) = match st {
                Some(d) => (d, 0, 0),
                None => (data, scale_exp, weight_exp),
            };
            let data = if delta > 1000.0 {
                match data {
                    Data::Ties { n, levels, lo, span, seed, weighted } => Data::Ties { n: n.min(1500), levels, lo, span, seed, weighted },
                    Data::Uniform { n, lo, span, seed, weighted } => Data::Uniform { n: n.min(1500), lo, span, seed, weighted },
                    d => d,
                }
            } else {
                data
            };
            Case { scale, delta, backlog, data, qs, xs_rel, scale_exp, weight_exp }
        })
        .boxed()
}

pub fn checks() -> Vec<Box<dyn DynCheck>> {
    vec![Box::new(C15)]
}

pub fn run(ctx: &Ctx) {
    ctx.set_rule("generated: scale in K0..K3, delta in (1, 1000] (rarely 1e4, 1e5), backlog 0..1000 (rarely 2^62, usize::MAX - 1, usize::MAX: nothing merges before a read), n in 1..=2000 (50000 thorough), data = explicit (value, weight) lists / heavy ties over few levels / uniform / rarely 2..60 values split between [-1.7e308, -1e308] and [1e308, 1.7e308] (max - min exceeds f64::MAX), ranges 1e-3..1e12 (a third of the cases multiplied by 10^e, e in -30..=30; 4 % by 10^+-100 .. 10^+-289), unit weights or weights over 1e-6..1e6 (in a sixth of the cases times 10^e, e in -30..=30, rarely e in {-280, -250, 290, 295, 300, 302, 304}; cases whose sum of |x*w| or total weight is not representable are skipped); q on a 101-point grid + generated + neighbours of 0 and 1; x on a grid over [min-1, max+1] + data points + {min, max, +-inf}. Oracle: quantile non-decreasing, within [min,max], = min at 0, = max at 1; cdf non-decreasing, in [0,1], 0 below min, 1 from max upward; inverse consistency both ways (cdf(x+tol) >= q for x = quantile(q); quantile(cdf(x-tol)) <= x+tol); repeated reads bit-identical; empty digest NaN / 0; no panic (debug assertions on). tol = 16 ulps of the data range x total/smallest weight. Non-trivial: n_centroids >= 2, some centroid has weight > 1 (fusion happened) and the last centroid's mean is below max. Distinct = hash of the case.");
    ctx.assume("values with |x*w| finite and normal, as the constructor's documented domain (finite x, finite w >= 0)");
    ctx.run_regressions(&[&C15]);
    let t = ctx.tier;
    ctx.run_random(&C15, t.pick(400_000, 1_200_000), move || strategy(t));
    ctx.require_class("shape", "fused_centroids", 0.3);
    ctx.require_class("shape", "weighted", 0.2);
    ctx.require_class("shape", "heavy_ties", 0.2);
    if ctx.tier == Tier::Thorough && !ctx.failed() {
        // coverage-guided search over the same case space (libFuzzer, 8 parallel campaigns)
        crate::engine::fuzz::run_tdigest_ops(ctx, 0, 1_600_000);
    }
}
