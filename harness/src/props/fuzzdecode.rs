//! Hand-written decoders from `arbitrary::Unstructured` to the structured cases of C12/C13/C14
//! (derive(Arbitrary) is not available offline). Used by the libFuzzer target `filter_ops` and by
//! the replay of its artifacts.
use crate::props::{c01, c02, c09, c10, c12, c13, c14, c15, c16};
use crate::support::td::Scale;
use crate::support::filters::{FCfg, KeySpec, RngSpec};
use crate::support::hashers::HKind;
use arbitrary::{Result, Unstructured};

fn hkind(u: &mut Unstructured) -> Result<HKind> {
    Ok(match u.int_in_range(0u8..=7)? {
        0 | 1 => HKind::Split,
        2 | 3 => HKind::Ident,
        4 => HKind::Sip,
        5 => HKind::Const(u.int_in_range(0u64..=3)?),
        6 => HKind::Mod(u.int_in_range(1u64..=8)?),
        _ => HKind::Mix(u.arbitrary()?),
    })
}

fn rng(u: &mut Unstructured) -> Result<RngSpec> {
    let n = u.int_in_range(0usize..=12)?;
    let mut script = vec![];
    for _ in 0..n {
        script.push(match u.int_in_range(0u8..=4)? {
            0 => 0,
            1 => u64::MAX,
            2 => 1u64 << u.int_in_range(0u32..=63)?,
            _ => u.arbitrary()?,
        });
    }
    Ok(RngSpec { script, tail: u.arbitrary()? })
}

fn keyspec(u: &mut Unstructured) -> Result<KeySpec> {
    Ok(match u.int_in_range(0u8..=6)? {
        6 => KeySpec::Raw([u64::MAX, u64::MAX - 1, 0, 1, 1 << 63, u64::MAX >> 1, 1 << 32, (1 << 32) - 1][u.int_in_range(0usize..=7)?]),
        0 => KeySpec::Raw(u.arbitrary()?),
        1 => KeySpec::Small(u.int_in_range(0u8..=40)?),
        2 => KeySpec::QR { quot: u.arbitrary()?, rem: u.int_in_range(0u16..=5)?, trash: u.arbitrary()? },
        3 => KeySpec::QREnd { back: u.int_in_range(0u8..=3)?, rem: u.int_in_range(0u16..=5)?, trash: u.arbitrary()? },
        _ => KeySpec::Split { hi: u.int_in_range(0u32..=5)?, lo: u.int_in_range(0u32..=7)? },
    })
}

fn universe(u: &mut Unstructured, max: usize) -> Result<Vec<KeySpec>> {
    let n = u.int_in_range(1usize..=max)?;
    (0..n).map(|_| keyspec(u)).collect()
}

fn cuckoo_cfg(u: &mut Unstructured) -> Result<FCfg> {
    let l = [2usize, 3, 4, 5, 8, 16, 64][u.int_in_range(0usize..=6)?];
    Ok(FCfg::Cuckoo { bucketsize: u.int_in_range(2usize..=4)?, n_buckets: 1 << u.int_in_range(1u32..=3)?, l_fp: l })
}

fn quotient_cfg(u: &mut Unstructured) -> Result<FCfg> {
    let r = [1usize, 2, 3, 8][u.int_in_range(0usize..=3)?];
    Ok(FCfg::Quotient { q: u.int_in_range(1usize..=4)?, r })
}

pub fn c12(u: &mut Unstructured) -> Result<c12::Case> {
    let cfg = if u.arbitrary::<bool>()? { cuckoo_cfg(u)? } else { quotient_cfg(u)? };
    let hk = hkind(u)?;
    let (r1, r2) = (rng(u)?, rng(u)?);
    let uni = universe(u, 24)?;
    let fresh_seed = u.arbitrary()?;
    let n = u.int_in_range(0usize..=80)?;
    let mut ops = vec![];
    for _ in 0..n {
        ops.push(match u.int_in_range(0u8..=11)? {
            0..=7 => c12::Op::Insert(u.arbitrary()?),
            8 => c12::Op::Delete(u.arbitrary()?),
            _ => {
                let m = u.int_in_range(0usize..=12)?;
                c12::Op::Union((0..m).map(|_| u.arbitrary()).collect::<Result<Vec<u16>>>()?)
            }
        });
    }
    Ok(c12::Case { cfg, hk, rng: r1, rng2: r2, universe: uni, fresh_seed, ops })
}

pub fn c01(u: &mut Unstructured) -> Result<c01::Case> {
    let cfg = match u.int_in_range(0u8..=4)? {
        0 | 1 => cuckoo_cfg(u)?,
        2 | 3 => quotient_cfg(u)?,
        _ => FCfg::Bloom { m: u.int_in_range(1usize..=64)?, k: u.int_in_range(1usize..=8)? },
    };
    let hk = hkind(u)?;
    let (r1, r2) = (rng(u)?, rng(u)?);
    let uni = universe(u, 24)?;
    let n = u.int_in_range(0usize..=80)?;
    let mut ops = vec![];
    for _ in 0..n {
        ops.push(match u.int_in_range(0u8..=15)? {
            0..=8 => c01::Op::Insert(u.arbitrary()?),
            9..=11 => c01::Op::Delete(u.arbitrary()?),
            12..=14 => {
                let m = u.int_in_range(0usize..=12)?;
                let keys = (0..m).map(|_| u.arbitrary()).collect::<Result<Vec<u16>>>()?;
                c01::Op::Union(keys, if u.arbitrary::<bool>()? { u.int_in_range(0u8..=7)? } else { 0 }, u.int_in_range(0u8..=2)? == 0)
            }
            _ => c01::Op::Clear,
        });
    }
    Ok(c01::Case { cfg, hk, rng: r1, rng2: r2, universe: uni, ops })
}

pub fn c13(u: &mut Unstructured) -> Result<c13::Case> {
    let FCfg::Quotient { q, r } = quotient_cfg(u)? else { unreachable!() };
    let hk = if u.int_in_range(0u8..=3)? == 0 { hkind(u)? } else { HKind::Ident };
    let uni = universe(u, 40)?;
    let n = u.int_in_range(0usize..=64)?;
    let ops = (0..n).map(|_| u.arbitrary()).collect::<Result<Vec<u16>>>()?;
    Ok(c13::Case { q, r, hk, universe: uni, ops })
}

pub fn c14(u: &mut Unstructured) -> Result<c14::Case> {
    let cfg = cuckoo_cfg(u)?;
    let hk = if u.int_in_range(0u8..=3)? == 0 { hkind(u)? } else { HKind::Split };
    let r = rng(u)?;
    let uni = universe(u, 24)?;
    let n = u.int_in_range(0usize..=100)?;
    let mut ops = vec![];
    for _ in 0..n {
        let k: u16 = u.arbitrary()?;
        ops.push(if u.int_in_range(0u8..=2)? == 0 { c14::Op::Delete(k) } else { c14::Op::Insert(k) });
    }
    Ok(c14::Case { cfg, hk, rng: r, universe: uni, ops })
}

// ---------------------------------------------------------------- T-Digest (libFuzzer target `tdigest_ops`)
// The decoders stay inside the value / weight / delta ranges of the proptest strategies of C15 and C16.

fn td_scale(u: &mut Unstructured) -> Result<Scale> {
    Ok([Scale::K0, Scale::K1, Scale::K2, Scale::K3][u.int_in_range(0usize..=3)?])
}

fn td_delta(u: &mut Unstructured) -> Result<f64> {
    Ok(match u.int_in_range(0u8..=3)? {
        0 | 1 => [1.001f64, 1.01, 1.05, 1.1, 2.0, 2.5, 5.0, 10.0, 20.0, 50.0, 100.0, 200.0, 1000.0][u.int_in_range(0usize..=12)?],
        2 => 1.01 + (u.arbitrary::<u16>()? as f64 / 65535.0) * 28.99,
        _ => 1.01 + (u.arbitrary::<u16>()? as f64 / 65535.0) * 998.99,
    })
}

fn td_backlog(u: &mut Unstructured) -> Result<usize> {
    Ok(match u.int_in_range(0u8..=3)? {
        0 => [0usize, 1, 10, 1000][u.int_in_range(0usize..=3)?],
        _ => u.int_in_range(0usize..=60)?,
    })
}

fn td_value(u: &mut Unstructured) -> Result<f64> {
    Ok(match u.int_in_range(0u8..=7)? {
        0..=2 => u.int_in_range(0i32..=7)? as f64,
        3 => [0.1f64, 0.2, 0.3, 1e-3, 1e11, 2e11, 3e11, -3e11][u.int_in_range(0usize..=7)?],
        4 | 5 => (u.int_in_range(-1_000_000i32..=1_000_000)? as f64) / 1000.0,
        _ => (1.0 + 9.0 * (u.arbitrary::<u16>()? as f64 / 65535.0)) * 10f64.powi(u.int_in_range(-3i32..=11)?),
    })
}

fn td_weight(u: &mut Unstructured) -> Result<f64> {
    Ok(match u.int_in_range(0u8..=7)? {
        0..=2 => 1.0,
        3 => u.int_in_range(1u32..=8)? as f64,
        4 => [1e-6f64, 1e6, 3.0, 0.5][u.int_in_range(0usize..=3)?],
        _ => ((1.0 + 9.0 * (u.arbitrary::<u16>()? as f64 / 65535.0)) * 10f64.powi(u.int_in_range(-6i32..=5)?)).clamp(1e-6, 1e6),
    })
}

fn td_exp(u: &mut Unstructured) -> Result<i8> {
    Ok(if u.int_in_range(0u8..=3)? == 0 { u.int_in_range(-30i8..=30)? } else { 0 })
}

pub fn c15(u: &mut Unstructured) -> Result<c15::Case> {
    let (scale, delta, backlog) = (td_scale(u)?, td_delta(u)?, td_backlog(u)?);
    let scale_exp = td_exp(u)?;
    let nq = u.int_in_range(0usize..=5)?;
    let qs = (0..nq).map(|_| Ok(u.arbitrary::<u16>()? as f64 / 65535.0)).collect::<Result<Vec<f64>>>()?;
    let nx = u.int_in_range(0usize..=5)?;
    let xs_rel = (0..nx).map(|_| Ok(-0.1 + 1.2 * (u.arbitrary::<u16>()? as f64 / 65535.0))).collect::<Result<Vec<f64>>>()?;
    let n = u.int_in_range(0usize..=150)?;
    let mut data = Vec::with_capacity(n);
    for _ in 0..n {
        let x = td_value(u)?;
        let w = if u.int_in_range(0u8..=9)? == 0 { 0.0 } else { td_weight(u)? };
        data.push((x, w));
    }
    Ok(c15::Case { scale, delta, backlog, data: c15::Data::Explicit(data), qs, xs_rel, scale_exp, weight_exp: 0 })
}

pub fn c16(u: &mut Unstructured) -> Result<c16::Case> {
    let (scale, delta, backlog) = (td_scale(u)?, td_delta(u)?, td_backlog(u)?);
    let (weight_exp, value_exp) = (td_exp(u)?, td_exp(u)?);
    let n = u.int_in_range(0usize..=150)?;
    let mut ops = Vec::with_capacity(n);
    for _ in 0..n {
        ops.push(match u.int_in_range(0u8..=15)? {
            0..=6 => c16::Op::Insert(td_value(u)?),
            7..=9 => c16::Op::InsertW(td_value(u)?, td_weight(u)?),
            10 => c16::Op::Block { n: u.int_in_range(1u16..=200)?, lo: (u.int_in_range(-1_000_000i32..=1_000_000)? as f64) / 1000.0, span: (u.arbitrary::<u16>()? as f64) / 6.5535, seed: u.arbitrary()? },
            11 => c16::Op::ZeroW(td_value(u)?),
            12 => c16::Op::ReadQuantile(u.arbitrary::<u16>()? as f64 / 65535.0),
            13 => c16::Op::ReadCdf(td_value(u)?),
            14 => c16::Op::ReadAgg,
            _ => c16::Op::Clear,
        });
    }
    let tiny_weights = u.int_in_range(0u8..=15)? == 0;
    Ok(c16::normalise(c16::Case { scale, delta, backlog, ops, weight_exp: if tiny_weights { 0 } else { weight_exp }, value_exp, tiny_weights }))
}

// ---------------------------------------------------------------- sketches (libFuzzer target `sketch_ops`)
// Decoders stay inside the parameter ranges of the proptest strategies of C02, C09 and C10.

pub fn c02(u: &mut Unstructured) -> Result<c02::Case> {
    let w = if u.int_in_range(0u8..=7)? == 0 { [100usize, 127, 128, 255, 272, 1000, 3000][u.int_in_range(0usize..=6)?] } else { u.int_in_range(1usize..=64)? };
    let d = u.int_in_range(1usize..=8)?;
    let ctype = [c02::CType::U8, c02::CType::U16, c02::CType::U32, c02::CType::U64, c02::CType::Usize][u.int_in_range(0usize..=4)?];
    let hk = hkind(u)?;
    let uni = universe(u, 24)?;
    let n = u.int_in_range(0usize..=100)?;
    let mut ops = Vec::with_capacity(n);
    for _ in 0..n {
        ops.push(match u.int_in_range(0u8..=14)? {
            0..=7 => c02::Op::Add(u.arbitrary()?),
            8..=11 => c02::Op::AddN(u.arbitrary()?, if u.arbitrary::<bool>()? { u.int_in_range(0u16..=63)? } else { u.arbitrary()? }),
            12 | 13 => {
                let m = u.int_in_range(0usize..=9)?;
                c02::Op::Merge((0..m).map(|_| Ok((u.arbitrary::<u16>()?, if u.arbitrary::<bool>()? { u.int_in_range(0u16..=63)? } else { u.arbitrary()? }))).collect::<Result<Vec<(u16, u16)>>>()?)
            }
            _ => c02::Op::Clear,
        });
    }
    Ok(c02::Case { w, d, ctype, hk, universe: uni, ops })
}

fn small_stream(u: &mut Unstructured, max_len: usize) -> Result<Vec<u16>> {
    let alphabet = [1u16, 2, 3, 5, 11, 29, 199][u.int_in_range(0usize..=6)?];
    let n = u.int_in_range(0usize..=max_len)?;
    (0..n).map(|_| u.int_in_range(0u16..=alphabet)).collect()
}

pub fn c09(u: &mut Unstructured) -> Result<c09::Case> {
    let ctor = if u.int_in_range(0u8..=2)? == 0 {
        c09::Ctor::Epsilon([0.5f64, 0.34, 1.0 / 3.0, 0.25, 0.2, 0.1, 0.01, 0.003, 0.002, 0.999][u.int_in_range(0usize..=9)?])
    } else {
        c09::Ctor::Width(u.int_in_range(1usize..=40)?)
    };
    let stream = c09::Stream::Explicit(small_stream(u, 300)?);
    let eps = match ctor {
        c09::Ctor::Epsilon(e) => e,
        c09::Ctor::Width(w) => 1.0 / w as f64,
    };
    let nt = u.int_in_range(0usize..=3)?;
    let mut thresholds = (0..nt).map(|_| Ok(u.arbitrary::<u16>()? as f64 / 65535.0)).collect::<Result<Vec<f64>>>()?;
    thresholds.push(eps);
    thresholds.push((2.0 * eps).min(1.0));
    Ok(c09::Case { ctor, stream, thresholds })
}

pub fn c10(u: &mut Unstructured) -> Result<c10::Case> {
    let k = u.int_in_range(1usize..=8)?;
    let (w, d) = [(1usize, 1usize), (2, 1), (1, 2), (3, 2), (4, 2), (16, 2), (64, 4), (4096, 4)][u.int_in_range(0usize..=7)?];
    let extend_chunk = if u.int_in_range(0u8..=4)? == 0 { u.int_in_range(1u16..=40)? } else { 0 };
    Ok(c10::Case { k, w, d, stream: c10::Stream::Explicit(small_stream(u, 200)?), extend_chunk })
}
