//! Hand-written decoders from `arbitrary::Unstructured` to the structured cases of C12/C13/C14
//! (derive(Arbitrary) is not available offline). Used by the libFuzzer target `filter_ops` and by
//! the replay of its artifacts.
use crate::props::{c12, c13, c14};
use crate::support::filters::{FCfg, KeySpec, RngSpec};
use crate::support::hashers::HKind;
use arbitrary::{Result, Unstructured};

fn hkind(u: &mut Unstructured) -> Result<HKind> {
    Ok(match u.int_in_range(0u8..=7)? {
        0 | 1 => HKind::Split,
        2 | 3 => HKind::Ident,
        4 => HKind::Sip,
        5 => HKind::Const(u.int_in_range(0u64..=3)?),
        6 => HKind::Mod(u.int_in_range(1u64..=8)?),
        _ => HKind::Mix(u.arbitrary()?),
    })
}

fn rng(u: &mut Unstructured) -> Result<RngSpec> {
    let n = u.int_in_range(0usize..=12)?;
    let mut script = vec![];
    for _ in 0..n {
        script.push(match u.int_in_range(0u8..=4)? {
            0 => 0,
            1 => u64::MAX,
            2 => 1u64 << u.int_in_range(0u32..=63)?,
            _ => u.arbitrary()?,
        });
    }
    Ok(RngSpec { script, tail: u.arbitrary()? })
}

fn keyspec(u: &mut Unstructured) -> Result<KeySpec> {
    Ok(match u.int_in_range(0u8..=5)? {
        0 => KeySpec::Raw(u.arbitrary()?),
        1 => KeySpec::Small(u.int_in_range(0u8..=40)?),
        2 => KeySpec::QR { quot: u.arbitrary()?, rem: u.int_in_range(0u16..=5)?, trash: u.arbitrary()? },
        3 => KeySpec::QREnd { back: u.int_in_range(0u8..=3)?, rem: u.int_in_range(0u16..=5)?, trash: u.arbitrary()? },
        _ => KeySpec::Split { hi: u.int_in_range(0u32..=5)?, lo: u.int_in_range(0u32..=7)? },
    })
}

fn universe(u: &mut Unstructured, max: usize) -> Result<Vec<KeySpec>> {
    let n = u.int_in_range(1usize..=max)?;
    (0..n).map(|_| keyspec(u)).collect()
}

fn cuckoo_cfg(u: &mut Unstructured) -> Result<FCfg> {
    let l = [2usize, 3, 4, 5, 8, 16, 64][u.int_in_range(0usize..=6)?];
    Ok(FCfg::Cuckoo { bucketsize: u.int_in_range(2usize..=4)?, n_buckets: 1 << u.int_in_range(1u32..=3)?, l_fp: l })
}

fn quotient_cfg(u: &mut Unstructured) -> Result<FCfg> {
    let r = [1usize, 2, 3, 8][u.int_in_range(0usize..=3)?];
    Ok(FCfg::Quotient { q: u.int_in_range(1usize..=4)?, r })
}

pub fn c12(u: &mut Unstructured) -> Result<c12::Case> {
    let cfg = if u.arbitrary::<bool>()? { cuckoo_cfg(u)? } else { quotient_cfg(u)? };
    let hk = hkind(u)?;
    let (r1, r2) = (rng(u)?, rng(u)?);
    let uni = universe(u, 24)?;
    let fresh_seed = u.arbitrary()?;
    let n = u.int_in_range(0usize..=80)?;
    let mut ops = vec![];
    for _ in 0..n {
        ops.push(match u.int_in_range(0u8..=11)? {
            0..=7 => c12::Op::Insert(u.arbitrary()?),
            8 => c12::Op::Delete(u.arbitrary()?),
            _ => {
                let m = u.int_in_range(0usize..=12)?;
                c12::Op::Union((0..m).map(|_| u.arbitrary()).collect::<Result<Vec<u16>>>()?)
            }
        });
    }
    Ok(c12::Case { cfg, hk, rng: r1, rng2: r2, universe: uni, fresh_seed, ops })
}

pub fn c13(u: &mut Unstructured) -> Result<c13::Case> {
    let FCfg::Quotient { q, r } = quotient_cfg(u)? else { unreachable!() };
    let hk = if u.int_in_range(0u8..=3)? == 0 { hkind(u)? } else { HKind::Ident };
    let uni = universe(u, 40)?;
    let n = u.int_in_range(0usize..=64)?;
    let ops = (0..n).map(|_| u.arbitrary()).collect::<Result<Vec<u16>>>()?;
    Ok(c13::Case { q, r, hk, universe: uni, ops })
}

pub fn c14(u: &mut Unstructured) -> Result<c14::Case> {
    let cfg = cuckoo_cfg(u)?;
    let hk = if u.int_in_range(0u8..=3)? == 0 { hkind(u)? } else { HKind::Split };
    let r = rng(u)?;
    let uni = universe(u, 24)?;
    let n = u.int_in_range(0usize..=100)?;
    let mut ops = vec![];
    for _ in 0..n {
        let k: u16 = u.arbitrary()?;
        ops.push(if u.int_in_range(0u8..=2)? == 0 { c14::Op::Delete(k) } else { c14::Op::Insert(k) });
    }
    Ok(c14::Case { cfg, hk, rng: r, universe: uni, ops })
}
