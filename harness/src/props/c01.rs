//! C01 — filters never report a false negative.
use crate::engine::*;
use crate::support::filters::*;
use crate::support::hashers::HKind;
use proptest::prelude::*;
use serde::{Deserialize, Serialize};
use std::collections::BTreeMap;

#[derive(Clone, Debug, Serialize, Deserialize)]
pub enum Op {
    Insert(u16),
    Delete(u16),
    /// union with a second filter built from these keys (same config/hasher, own RNG); for the cuckoo
    /// filter the first `.1` of them are deleted again from the operand before the union (holes); if
    /// `.2` is set the operand receives its content through a union from a third filter instead of
    /// through inserts
    Union(Vec<u16>, u8, bool),
    Clear,
}

#[derive(Clone, Debug, Serialize, Deserialize)]
pub struct Case {
    pub cfg: FCfg,
    pub hk: HKind,
    pub rng: RngSpec,
    pub rng2: RngSpec,
    pub universe: Vec<KeySpec>,
    pub ops: Vec<Op>,
}

fn op_strategy(union_max: usize) -> impl Strategy<Value = Op> {
    prop_oneof![
        12 => any::<u16>().prop_map(Op::Insert),
        4 => any::<u16>().prop_map(Op::Delete),
        2 => (prop::collection::vec(any::<u16>(), 0..union_max), prop_oneof![3 => Just(0u8), 2 => 0u8..8], prop::bool::weighted(0.3)).prop_map(|(k, d, v)| Op::Union(k, d, v)),
        1 => Just(Op::Clear),
    ]
}

fn strategy(tier: Tier) -> BoxedStrategy<Case> {
    let maxops = tier.pick(80usize, 600usize);
    (
        filter_cfg(),
        hkind_any(),
        rng_spec(),
        rng_spec(),
        prop::collection::vec(key_spec(), 1..48),
        prop::collection::vec(op_strategy(24), 0..maxops),
    )
        .prop_map(|(cfg, hk, rng, rng2, universe, ops)| Case { cfg, hk, rng, rng2, universe, ops })
        .boxed()
}

/// Quotient filters holding one run of 40..220 classes (see `c13::long_run_case`), as plain insert histories.
fn long_run_strategy() -> BoxedStrategy<Case> {
    (7usize..=10, prop_oneof![Just(7usize), Just(8), Just(16), Just(100usize)], any::<u16>(), 40u16..220, 0u8..4, prop_oneof![3 => Just(0u8), 1 => 1u8..3], any::<u64>())
        .prop_map(|(q, rcode, base, len, followers, back, seed)| {
            let c = super::c13::long_run_case(q, rcode, base, len, followers, back, seed);
            let none = RngSpec { script: vec![], tail: 0 };
            Case { cfg: FCfg::Quotient { q: c.q, r: c.r }, hk: c.hk, rng: none.clone(), rng2: none, universe: c.universe, ops: c.ops.into_iter().map(Op::Insert).collect() }
        })
        .boxed()
}

pub struct C01;

impl Check for C01 {
    type Case = Case;
    fn name(&self) -> &'static str {
        "history"
    }
    fn eval(&self, c: &Case) -> Verdict {
        let kind = c.cfg.kind();
        let uni: Vec<u64> = c.universe.iter().map(|k| k.materialise(&c.cfg)).collect();
        let mut f = AnyFilter::new(&c.cfg, c.hk, &c.rng);
        let mut model: BTreeMap<u64, u32> = BTreeMap::new();
        let (mut n_ok, mut n_fail_ins, mut n_fail_union, mut n_union_ok_nonempty, mut n_evict, mut n_del_shared) = (0u32, 0u32, 0u32, 0u32, 0u32, 0u32);
        let mut bloom_okfalse_new = false;
        let mut n_other_holes = 0u32;
        let mut n_via_union = 0u32;
        for (step, op) in c.ops.iter().enumerate() {
            let what;
            match op {
                Op::Insert(i) => {
                    let k = uni[idx(*i, uni.len())];
                    let before = f.drawn();
                    let was_new = model.get(&k).copied().unwrap_or(0) == 0;
                    match f.insert(k) {
                        Ok(r) => {
                            *model.entry(k).or_insert(0) += 1;
                            n_ok += 1;
                            if kind == "bloom" && !r && was_new {
                                bloom_okfalse_new = true;
                            }
                        }
                        Err(()) => n_fail_ins += 1,
                    }
                    if f.drawn() > before {
                        n_evict += 1;
                    }
                    what = format!("insert({})", k);
                }
                Op::Delete(i) => {
                    let k = uni[idx(*i, uni.len())];
                    // only currently inserted elements are deleted
                    if kind != "cuckoo" || model.get(&k).copied().unwrap_or(0) == 0 {
                        continue;
                    }
                    let r = f.delete(k).unwrap();
                    if !r {
                        return fail(
                            format!("{}:delete-of-present-returns-false", kind),
                            format!("step {}: delete({}) returned false although it was inserted more often than deleted", step, k),
                        );
                    }
                    *model.get_mut(&k).unwrap() -= 1;
                    if model.values().filter(|&&v| v > 0).count() > 0 {
                        n_del_shared += 1;
                    }
                    what = format!("delete({})", k);
                }
                Op::Union(keys, del, via_union) => {
                    let mut other = AnyFilter::new(&c.cfg, c.hk, &c.rng2);
                    let mut om: BTreeMap<u64, u32> = BTreeMap::new();
                    let mut inserted = vec![];
                    for i in keys {
                        let k = uni[idx(*i, uni.len())];
                        if other.insert(k).is_ok() {
                            *om.entry(k).or_insert(0) += 1;
                            inserted.push(k);
                        }
                    }
                    if *via_union {
                        // the operand gets its content through a union into a fresh filter
                        let mut acc = AnyFilter::new(&c.cfg, c.hk, &c.rng2);
                        if acc.union(&other).is_ok() {
                            other = acc;
                            n_via_union += 1;
                        }
                    }
                    if kind == "cuckoo" {
                        // delete the oldest inserts again: leaves holes in front of later fingerprints
                        for &k in inserted.iter().take(*del as usize) {
                            if other.delete(k) == Some(true) {
                                *om.get_mut(&k).unwrap() -= 1;
                                n_other_holes += 1;
                            }
                        }
                        om.retain(|_, v| *v > 0);
                    }
                    let nonempty = model.values().any(|&v| v > 0);
                    match f.union(&other) {
                        Ok(()) => {
                            if nonempty && !om.is_empty() {
                                n_union_ok_nonempty += 1;
                            }
                            for (k, v) in om {
                                *model.entry(k).or_insert(0) += v;
                            }
                        }
                        Err(()) => n_fail_union += 1,
                    }
                    what = format!("union(other built from {} inserts)", keys.len());
                }
                Op::Clear => {
                    f.clear();
                    model.clear();
                    what = "clear".to_string();
                }
            }
            for (&k, &cnt) in &model {
                if cnt > 0 && !f.query(k) {
                    let opname = match op {
                        Op::Insert(_) => "insert",
                        Op::Delete(_) => "delete",
                        Op::Union(..) => "union",
                        Op::Clear => "clear",
                    };
                    return fail(
                        format!("{}:false-negative-after-{}", kind, opname),
                        format!(
                            "step {} ({}): query({}) is false although the key was inserted {} time(s) more than deleted since the last clear; cfg={:?} hasher={:?}",
                            step, what, k, cnt, c.cfg, c.hk
                        ),
                    );
                }
            }
        }
        let nontrivial = n_ok >= 1
            && (n_fail_ins > 0 || n_fail_union > 0 || n_union_ok_nonempty > 0 || n_evict > 0 || n_del_shared > 0 || bloom_okfalse_new);
        let mut info = Info::new(nontrivial, hash_json(c))
            .class(kind)
            .class_if(n_fail_ins > 0, "failed_insert")
            .class_if(n_fail_union > 0, "failed_union")
            .class_if(n_union_ok_nonempty > 0, "union_ok_into_nonempty")
            .class_if(n_evict > 0, "cuckoo_eviction")
            .class_if(n_del_shared > 0, "cuckoo_delete_with_others_remaining")
            .class_if(n_other_holes > 0, "union_operand_with_deletes")
            .class_if(n_via_union > 0, "union_operand_built_by_union")
            .class_if(bloom_okfalse_new, "bloom_okfalse_for_new_key");
        info.inner_evals = c.ops.len() as u64;
        Verdict::Pass(info)
    }
}

pub fn checks() -> Vec<Box<dyn DynCheck>> {
    vec![Box::new(C01), Box::new(super::extendpaths::ExtBloom), Box::new(super::giant::Giant)]
}

pub fn run(ctx: &Ctx) {
    ctx.set_rule("generated: filter kind x configuration x BuildHasher family (Ident/Split/Sip/Seeded/Mix/Const/Mod) x scripted eviction RNG x colliding key universe (<=48 keys) x history of insert/delete/union/clear (<=80 quick, <=600 thorough); after every op every key the model holds must be queried true. Non-trivial: >=1 successful insert and one of {failed insert, failed union, successful union into a non-empty filter, cuckoo insert that drew RNG words, cuckoo delete with other members remaining, Bloom Ok(false) for a new key}. Distinct = hash of the whole case. evaluations counts operations executed (each followed by a full model sweep). extend_path: default-hasher BloomFilter (m 1..512, k 1..8) fed through Extend::extend in generated chunks (incl. empty ones): no false negative after any chunk, and query/len/is_empty equal to a filter filled by insert calls. giant_tables: Bloom filters of 2^31+11, 2^32+15 and 2^33 bits (k = 3, 4, 2) with 200 inserted keys: no false negative, at most one of 200 probes reported present. 2.5 % of the histories are quotient filters of 2^7..2^10 slots holding one run of 40..220 classes (whole 64-slot blocks of continuation bits).");
    ctx.assume("model: multiset of keys whose insert returned Ok since the last clear, minus deletes of currently inserted keys, plus the other operand's keys after a successful union");
    ctx.run_regressions(&[&C01]);
    let tier = ctx.tier;
    ctx.run_random(&C01, tier.pick(400_000, 3_000_000), move || prop_oneof![40 => strategy(tier), 1 => long_run_strategy()].boxed());
    // the Extend entry point of the default-hasher BloomFilter
    ctx.run_random(&super::extendpaths::ExtBloom, tier.pick(30_000, 300_000), super::extendpaths::bloom_strategy);
    ctx.run_fixed(&super::giant::Giant, super::giant::bloom_cases(ctx.seed));
    ctx.require_class("history", "failed_insert", 0.05);
    ctx.require_class("history", "failed_union", 0.02);
    ctx.require_class("history", "cuckoo_eviction", 0.03);
    ctx.require_class("history", "union_ok_into_nonempty", 0.05);
    if ctx.tier == Tier::Thorough && !ctx.failed() {
        // coverage-guided search over the same case space (libFuzzer, 8 parallel campaigns)
        crate::engine::fuzz::run_filter_ops(ctx, 3, 160_000);
    }
}
