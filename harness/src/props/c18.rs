//! C18 — reservoir contents are always a valid sample of the stream.
use crate::engine::*;
use crate::support::filters::{rng_spec, RngSpec};
use crate::support::rng::ScriptRng;
use pdatastructs::reservoirsampling::ReservoirSampling;
use proptest::prelude::*;
use serde::{Deserialize, Serialize};

#[derive(Clone, Debug, Serialize, Deserialize)]
pub struct Case {
    pub k: usize,
    pub n: usize,
    pub rng: RngSpec,
    /// items fed to the sampler before a clear() (0 = fresh sampler); afterwards the same validity
    /// is required of the reused sampler
    #[serde(default)]
    pub prefill: usize,
    /// if non-empty: the stream is fed alternately by add() and by Extend::extend() with chunks of
    /// these sizes (0 = an empty iterator), cycling through the list
    #[serde(default)]
    pub chunks: Vec<u16>,
}

fn validate(rs: &ReservoirSampling<u64, ScriptRng>, k: usize, n: usize, seen: &mut Vec<u32>, epoch: u32) -> Result<(), (String, String)> {
    let r = rs.reservoir();
    if r.len() != n.min(k) {
        return Err(("len!=min(n,k)".into(), format!("after {} adds reservoir().len() = {} but min(n, k) = {}", n, r.len(), n.min(k))));
    }
    if rs.i() != n {
        return Err(("i!=n".into(), format!("after {} adds i() = {}", n, rs.i())));
    }
    if rs.is_empty() != (n == 0) {
        return Err(("is_empty".into(), format!("after {} adds is_empty() = {}", n, rs.is_empty())));
    }
    if rs.k() != k {
        return Err(("k-changed".into(), format!("k() = {} != {}", rs.k(), k)));
    }
    for (slot, &it) in r.iter().enumerate() {
        if it >= n as u64 {
            return Err(("item-never-added".into(), format!("after {} adds slot {} holds {} which was never added", n, slot, it)));
        }
        if seen[it as usize] == epoch {
            return Err(("position-twice".into(), format!("after {} adds stream position {} occurs twice in the reservoir", n, it)));
        }
        seen[it as usize] = epoch;
    }
    if n <= k {
        for (slot, &it) in r.iter().enumerate() {
            if it != slot as u64 {
                return Err(("prefix-order".into(), format!("after {} <= k adds slot {} holds {} instead of the stream prefix", n, slot, it)));
            }
        }
    }
    Ok(())
}

pub struct C18;

impl Check for C18 {
    type Case = Case;
    fn name(&self) -> &'static str {
        "validity"
    }
    fn eval(&self, c: &Case) -> Verdict {
        let (rng, handle) = ScriptRng::new(c.rng.script.clone(), c.rng.tail);
        let mut rs: ReservoirSampling<u64, ScriptRng> = ReservoirSampling::new(c.k, rng);
        let mut seen = vec![0u32; c.n + 1];
        let mut epoch = 1u32;
        if c.prefill > 0 {
            for j in 0..c.prefill {
                if let Err(p) = catch(|| rs.add(u64::MAX - j as u64)) {
                    return fail(panic_sig(&p), format!("add #{} (before clear) panicked: {} [k={}]", j + 1, p, c.k));
                }
            }
            rs.clear();
        }
        if let Err((sig, msg)) = validate(&rs, c.k, 0, &mut seen, epoch) {
            return fail(sig, msg);
        }
        // full validation after every add while cheap, then at a stride (plus the phase borders)
        let work = c.n.saturating_mul(c.k.min(c.n.max(1))); // validation cost ~ n * min(n, k)
        let stride = if work <= 400_000 { 1 } else { (work / 400_000).max(1) };
        let mut checked = 0u64;
        let mut i = 0usize;
        let mut turn = 0usize;
        while i < c.n {
            // how many items this step feeds, and through which API
            let step = if c.chunks.is_empty() || turn % 2 == 0 { 1 } else { (c.chunks[(turn / 2) % c.chunks.len()] as usize).min(c.n - i) };
            let via_extend = !c.chunks.is_empty() && turn % 2 == 1;
            turn += 1;
            let r = if via_extend { catch(|| rs.extend((i as u64)..((i + step) as u64))) } else { catch(|| rs.add(i as u64)) };
            if let Err(p) = r {
                return fail(panic_sig(&p), format!("{} at item #{} panicked: {} [k={}]", if via_extend { "extend" } else { "add" }, i + 1, p, c.k));
            }
            if step == 0 {
                // an empty extend must change nothing
                if rs.i() != i || rs.reservoir().len() != i.min(c.k) {
                    return fail("empty-extend-changes-state", format!("extend(empty) after {} items: i() = {}, reservoir().len() = {} [k={}]", i, rs.i(), rs.reservoir().len(), c.k));
                }
                continue;
            }
            i += step - 1;
            let n = i + 1;
            let k4 = c.k.saturating_mul(4);
            let border = n <= c.k.saturating_add(2) || (n + 2 >= k4 && n <= k4.saturating_add(3));
            if n % stride == 0 || border || n == c.n {
                epoch += 1;
                checked += 1;
                if let Err((sig, msg)) = validate(&rs, c.k, n, &mut seen, epoch) {
                    return fail(sig, format!("{} [k={}, rng script {:?}]", msg, c.k, &c.rng.script[..c.rng.script.len().min(8)]));
                }
            } else if rs.reservoir().len() != n.min(c.k) || rs.i() != n {
                return fail("len!=min(n,k)", format!("after {} adds len {} i {}", n, rs.reservoir().len(), rs.i()));
            }
            i += 1;
        }
        let extreme = c.rng.script.iter().any(|&w| w == 0 || w == u64::MAX);
        let three_phases = c.n > c.k.saturating_mul(4);
        let mut info = Info::new(three_phases || extreme, hash_json(c))
            .class_if(three_phases, "all_three_phases")
            .class_if(extreme, "extreme_rng_words")
            .class_if(c.k == 1, "k=1")
            .class_if(c.prefill > 0, "reused_after_clear")
            .class_if(!c.chunks.is_empty(), "fed_through_extend")
            .class_if(handle.borrow().drawn > 0, "rng_used");
        info.inner_evals = checked;
        Verdict::Pass(info)
    }
}

fn strategy(tier: Tier) -> BoxedStrategy<Case> {
    let kmax = tier.pick(40usize, 2000usize);
    let nmax = tier.pick(2_000usize, 200_000usize);
    (prop_oneof![3 => 1usize..=8, 3 => 1usize..=40, 1 => 1usize..=kmax], rng_spec(), any::<u16>(), 0u8..10, prop_oneof![3 => Just(0u16), 1 => any::<u16>()], prop_oneof![2 => Just(vec![]), 1 => prop::collection::vec(prop_oneof![4 => Just(0u16), 4 => 0u16..6, 4 => 0u16..300, 1 => 300u16..5000], 1..6)])
        .prop_map(move |(k, rng, nsel, mode, pre, chunks)| {
            // n across the three phases and their borders
            let n = match mode {
                0 => idx(nsel, k + 2),
                1 => k + idx(nsel, 3),
                2 => (4 * k + idx(nsel, 5)).saturating_sub(2),
                3 | 4 => idx(nsel, 4 * k + 2),
                5 | 6 => idx(nsel, 50 * k + 1),
                _ => idx(nsel, nmax),
            };
            // a reused sampler: up to 60k items before the clear()
            let prefill = if pre == 0 { 0 } else { 1 + idx(pre, 60 * k.min(200) + 2) };
            Case { k, n: n.min(nmax), rng, prefill, chunks }
        })
        .boxed()
}

/// reservoir sizes no stream can fill ("keep everything"): k near usize::MAX, where 4 * k does not fit a usize
fn huge_k_strategy() -> BoxedStrategy<Case> {
    (prop_oneof![Just(usize::MAX), Just(usize::MAX - 1), Just(1usize << 63), Just(1usize << 62), Just((1usize << 62) - 1), Just((1usize << 62) + 1), Just(usize::MAX / 4 + 1), Just(usize::MAX / 4)], rng_spec(), 0usize..300, prop_oneof![2 => Just(vec![]), 1 => prop::collection::vec(0u16..40, 1..4)])
        .prop_map(|(k, rng, n, chunks)| Case { k, n, rng, prefill: 0, chunks })
        .boxed()
}

/// Same oracle as `C18`, own sub-check name for the huge-k generator.
pub struct HugeK;

impl Check for HugeK {
    type Case = Case;
    fn name(&self) -> &'static str {
        "huge_k"
    }
    fn eval(&self, c: &Case) -> Verdict {
        match C18.eval(c) {
            Verdict::Pass(i) => {
                let nt = c.n >= 2;
                let mut j = Info::new(nt, hash_json(c)).class_if(c.k.checked_mul(4).is_none(), "4k_exceeds_usize").class_if(!c.chunks.is_empty(), "fed_through_extend");
                j.inner_evals = i.inner_evals;
                Verdict::Pass(j)
            }
            f => f,
        }
    }
}

pub fn checks() -> Vec<Box<dyn DynCheck>> {
    vec![Box::new(C18), Box::new(HugeK)]
}

pub fn run(ctx: &Ctx) {
    ctx.set_rule("generated: k in 1..=40 (2000 thorough), n from 0 across k, 4k, 4k+1 up to 50k and beyond, RNG = generated script of extreme words (0, u64::MAX, single bits, random) followed by a seeded PRNG tail; the stream is position ids 0..n; a third of the cases feed the stream alternately through add() and Extend::extend() with generated chunk sizes (incl. empty iterators); a quarter of the cases first feed up to 60k other items and clear() the sampler (a cleared sampler must be as valid as a fresh one). huge_k: k in {2^62, usize::MAX/4, usize::MAX/4 + 1, 2^62 - 1, 2^62, 2^62 + 1, 2^63, usize::MAX - 1, usize::MAX} (reservoirs no stream fills; 4k mostly does not fit a usize) with n < 300, same oracle. After every add (large cases: at a stride plus all phase borders): reservoir().len() == min(n,k), every item < n, no position twice, prefix order while n <= k, i() == n, is_empty iff n == 0, no panic. Non-trivial: n > 4k (all three phases) or a script containing 0 / u64::MAX words. Distinct = hash of the case; evaluations = cases + validations.");
    ctx.run_regressions(&[&C18, &HugeK]);
    let t = ctx.tier;
    ctx.run_random(&C18, t.pick(3_000_000, 2_000_000), move || strategy(t));
    ctx.run_random(&HugeK, t.pick(20_000, 200_000), huge_k_strategy);
    ctx.require_class("validity", "all_three_phases", 0.2);
    ctx.require_class("validity", "extreme_rng_words", 0.3);
}
