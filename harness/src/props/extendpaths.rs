//! `Extend` entry points (default-hasher structures only): the same properties must hold when elements
//! arrive through `Extend::extend` instead of one call per element. Sub-checks of C01, C02 and C17.
use crate::engine::*;
use pdatastructs::countminsketch::CountMinSketch;
use pdatastructs::filters::bloomfilter::BloomFilter;
use pdatastructs::filters::Filter;
use pdatastructs::hyperloglog::HyperLogLog;
use proptest::prelude::*;
use serde::{Deserialize, Serialize};
use std::collections::HashMap;

#[derive(Clone, Debug, Serialize, Deserialize)]
pub struct Case {
    /// Bloom: m; CountMinSketch: w; HyperLogLog: b (4..=12)
    pub p1: usize,
    /// Bloom: k; CountMinSketch: d; HyperLogLog: 0 = Extend<T>, 1 = Extend<&T>
    pub p2: usize,
    pub chunks: Vec<Vec<u64>>,
    pub probes: Vec<u64>,
}

fn info(c: &Case) -> Info {
    let total: usize = c.chunks.iter().map(|x| x.len()).sum();
    let multi = c.chunks.iter().any(|x| x.len() >= 2);
    Info::new(total >= 2 && multi, hash_json(c))
        .class_if(c.chunks.iter().any(|x| x.is_empty()), "empty_chunk")
        .class_if(c.chunks.len() >= 2, "several_chunks")
        .class_if(multi, "chunk_of_two_or_more")
        .class_if(c.chunks.iter().any(|x| x.len() >= 64), "chunk_of_64_or_more")
        .class_if(c.chunks.iter().any(|x| x.len() >= 1024), "chunk_of_1024_or_more")
}

pub struct ExtBloom;

impl Check for ExtBloom {
    type Case = Case;
    fn name(&self) -> &'static str {
        "extend_path"
    }
    fn eval(&self, c: &Case) -> Verdict {
        let (m, k) = (c.p1.max(1), c.p2.max(1));
        let mut f1: BloomFilter<u64> = BloomFilter::with_params(m, k);
        let mut f2: BloomFilter<u64> = BloomFilter::with_params(m, k);
        let mut seen: Vec<u64> = vec![];
        for (ci, chunk) in c.chunks.iter().enumerate() {
            if let Err(p) = catch(|| f1.extend(chunk.iter().copied())) {
                return fail(format!("bloom-extend-{}", panic_sig(&p)), format!("extend with chunk #{} ({} elements) panicked: {}", ci, chunk.len(), p));
            }
            for x in chunk {
                f2.insert(x).unwrap();
                seen.push(*x);
            }
            if let Some(x) = seen.iter().find(|x| !f1.query(x)) {
                return fail("bloom-extend:false-negative", format!("after extend with chunk #{} query({}) is false although the element was passed to extend (m={}, k={})", ci, x, m, k));
            }
            if f1.is_empty() != f2.is_empty() || f1.len() != f2.len() {
                return fail("bloom-extend:len!=insert-loop", format!("after chunk #{}: len/is_empty {}/{} via extend but {}/{} via insert", ci, f1.len(), f1.is_empty(), f2.len(), f2.is_empty()));
            }
            if let Some(x) = c.probes.iter().find(|x| f1.query(x) != f2.query(x)) {
                return fail("bloom-extend:query!=insert-loop", format!("after chunk #{}: query({}) = {} via extend but {} via insert (m={}, k={})", ci, x, f1.query(x), f2.query(x), m, k));
            }
        }
        Verdict::Pass(info(c))
    }
}

pub struct ExtCms;

impl Check for ExtCms {
    type Case = Case;
    fn name(&self) -> &'static str {
        "extend_path"
    }
    fn eval(&self, c: &Case) -> Verdict {
        let (w, d) = (c.p1.max(1), c.p2.max(1));
        let mut s1: CountMinSketch<u64> = CountMinSketch::with_params(w, d);
        let mut s2: CountMinSketch<u64> = CountMinSketch::with_params(w, d);
        let mut truth: HashMap<u64, usize> = HashMap::new();
        for (ci, chunk) in c.chunks.iter().enumerate() {
            if let Err(p) = catch(|| s1.extend(chunk.iter().copied())) {
                return fail(format!("cms-extend-{}", panic_sig(&p)), format!("extend with chunk #{} ({} elements) panicked: {}", ci, chunk.len(), p));
            }
            for x in chunk {
                s2.add(x);
                *truth.entry(*x).or_insert(0) += 1;
            }
            for (x, &t) in &truth {
                let q = s1.query_point(x);
                if q < t {
                    return fail("cms-extend:underestimate", format!("after extend with chunk #{} query_point({}) = {} < {} occurrences passed to extend (w={}, d={})", ci, x, q, t, w, d));
                }
            }
            if s1.is_empty() != truth.is_empty() {
                return fail("cms-extend:is_empty", format!("after chunk #{}: is_empty() = {} with {} distinct elements added", ci, s1.is_empty(), truth.len()));
            }
            for x in truth.keys().chain(c.probes.iter()) {
                if s1.query_point(x) != s2.query_point(x) {
                    return fail("cms-extend:query!=add-loop", format!("after chunk #{}: query_point({}) = {} via extend but {} via add (w={}, d={})", ci, x, s1.query_point(x), s2.query_point(x), w, d));
                }
            }
        }
        Verdict::Pass(info(c))
    }
}

pub struct ExtHll;

impl Check for ExtHll {
    type Case = Case;
    fn name(&self) -> &'static str {
        "extend_path"
    }
    fn eval(&self, c: &Case) -> Verdict {
        let b = c.p1.clamp(4, 18);
        let by_ref = c.p2 % 2 == 1;
        let mut h1: HyperLogLog<u64> = HyperLogLog::new(b);
        let mut h2: HyperLogLog<u64> = HyperLogLog::new(b);
        for (ci, chunk) in c.chunks.iter().enumerate() {
            let r = if by_ref { catch(|| h1.extend(chunk.iter())) } else { catch(|| h1.extend(chunk.iter().copied())) };
            if let Err(p) = r {
                return fail(format!("hll-extend-{}", panic_sig(&p)), format!("extend with chunk #{} ({} elements) panicked: {}", ci, chunk.len(), p));
            }
            for x in chunk {
                h2.add(x);
            }
            if h1.registers() != h2.registers() {
                let j = (0..h1.registers().len()).find(|&j| h1.registers()[j] != h2.registers()[j]).unwrap();
                return fail(
                    "hll-extend:registers!=add-loop",
                    format!("after chunk #{} ({}): register {} is {} via extend but {} via add (b={})", ci, if by_ref { "Extend<&T>" } else { "Extend<T>" }, j, h1.registers()[j], h2.registers()[j], b),
                );
            }
            if h1.count() != h2.count() || h1.is_empty() != h2.is_empty() {
                return fail("hll-extend:count!=add-loop", format!("after chunk #{}: count/is_empty {}/{} via extend, {}/{} via add", ci, h1.count(), h1.is_empty(), h2.count(), h2.is_empty()));
            }
        }
        Verdict::Pass(info(c).class_if(by_ref, "extend_by_reference"))
    }
}

pub fn strategy(p1: BoxedStrategy<usize>, p2: BoxedStrategy<usize>) -> BoxedStrategy<Case> {
    let key = prop_oneof![3 => 0u64..20, 1 => any::<u64>()];
    // mostly short chunks (they shrink well); long ones reach block-wise implementations of extend
    let chunk = prop_oneof![
        8 => prop::collection::vec(key.clone(), 0..12),
        2 => prop::collection::vec(any::<u64>(), 0..150),
        1 => prop::collection::vec(any::<u64>(), 150..1100),
        1 => (any::<u64>(), 1usize..5000).prop_map(|(s, n)| (0..n as u64).map(|i| mix(s, i)).collect::<Vec<u64>>()),
    ];
    (p1, p2, prop::collection::vec(chunk, 0..6), prop::collection::vec(key, 0..30))
        .prop_map(|(p1, p2, chunks, probes)| Case { p1, p2, chunks, probes })
        .boxed()
}

pub fn bloom_strategy() -> BoxedStrategy<Case> {
    strategy(prop_oneof![1usize..=16, 1usize..=512].boxed(), (1usize..=8).boxed())
}

pub fn cms_strategy() -> BoxedStrategy<Case> {
    strategy(prop_oneof![1usize..=4, 1usize..=64].boxed(), (1usize..=4).boxed())
}

pub fn hll_strategy() -> BoxedStrategy<Case> {
    strategy((4usize..=12).boxed(), (0usize..=1).boxed())
}

// ---------------------------------------------------------------- HashIterBuilder (mechanism behind Bloom and CountMinSketch)

#[derive(Clone, Debug, Serialize, Deserialize)]
pub struct HiCase {
    pub m: usize,
    pub k: usize,
    pub hk: crate::support::hashers::HKind,
    pub obj: u64,
}

/// Documented contract of `HashIterBuilder`: `iter_for(x)` emits exactly k values `(h1 + i*h2 + f(i)) mod m` in [0, m).
pub struct HashIterCheck;

impl Check for HashIterCheck {
    type Case = HiCase;
    fn name(&self) -> &'static str {
        "hash_iter"
    }
    fn eval(&self, c: &HiCase) -> Verdict {
        use pdatastructs::hash_utils::HashIterBuilder;
        let (m, k) = (c.m.max(1), c.k);
        let b = match catch(|| HashIterBuilder::new(m, k, crate::support::hashers::GenBH(c.hk))) {
            Ok(b) => b,
            Err(p) => return fail(format!("hash_iter-new-{}", panic_sig(&p)), format!("HashIterBuilder::new({}, {}, {:?}) panicked: {}", m, k, c.hk, p)),
        };
        if b.m() != m || b.k() != k {
            return fail("hash_iter:getters", format!("m()/k() = {}/{} after new({}, {})", b.m(), b.k(), m, k));
        }
        let v: Vec<usize> = match catch(|| b.iter_for(&c.obj).take(k + 5).collect()) {
            Ok(v) => v,
            Err(p) => return fail(format!("hash_iter-{}", panic_sig(&p)), format!("iter_for({}) panicked for m={}, k={}, {:?}: {}", c.obj, m, k, c.hk, p)),
        };
        if v.len() != k {
            return fail("hash_iter:count!=k", format!("iter_for yields {} values, k = {} (m = {})", v.len(), k, m));
        }
        if let Some(x) = v.iter().find(|&&x| x >= m) {
            return fail("hash_iter:out-of-range", format!("iter_for yields {} which is not in [0, m = {})", x, m));
        }
        let again: Vec<usize> = b.iter_for(&c.obj).collect();
        if again != v {
            return fail("hash_iter:not-deterministic", format!("two iter_for calls for the same object differ: {:?} vs {:?}", v, again));
        }
        let mm = m as u128;
        for i in 0..k {
            if b.f(i) as u128 >= mm {
                return fail("hash_iter:f-out-of-range", format!("f({}) = {} is not in [0, m = {})", i, b.f(i), m));
            }
        }
        if k >= 3 {
            // h1, h2 follow from the first two values; all later ones are then determined by the documented formula
            let h1 = (v[0] as u128 + mm - b.f(0) as u128) % mm;
            let h2 = (v[1] as u128 + 2 * mm - b.f(1) as u128 - h1) % mm;
            for i in 2..k {
                let want = (h1 + (i as u128 % mm) * h2 + b.f(i) as u128) % mm;
                if v[i] as u128 != want {
                    return fail(
                        "hash_iter:formula",
                        format!("value #{} is {} but (h1 + i*h2 + f(i)) mod m = {} with h1 = {}, h2 = {} derived from values #0, #1 (m = {}, k = {}, f(i) = {})", i, v[i], want, h1, h2, m, k, b.f(i)),
                    );
                }
            }
        }
        Verdict::Pass(Info::new(k >= 3 && m >= 2, hash_json(c)).class_if(m == 1, "m=1").class_if(k == 0, "k=0").class_if(k > m, "k>m").class_if(m > 1 << 20, "large_m"))
    }
}

pub fn hash_iter_strategy() -> BoxedStrategy<HiCase> {
    let m = prop_oneof![3 => 1usize..=8, 3 => 1usize..=64, 2 => 1usize..=5000, 1 => (1u32..=31).prop_map(|e| 1usize << e), 1 => 1usize..=(1usize << 31)];
    let k = prop_oneof![6 => 0usize..=8, 2 => 0usize..=40];
    (m, k, crate::support::filters::hkind_any(), prop_oneof![0u64..20, any::<u64>()]).prop_map(|(m, k, hk, obj)| HiCase { m, k, hk, obj }).boxed()
}

// ---------------------------------------------------------------- default-hasher convenience constructors

#[derive(Clone, Debug, Serialize, Deserialize)]
pub struct DcCase {
    /// 0 Bloom::with_properties, 1 Cuckoo::with_properties_4, 2 Cuckoo::with_properties_8, 3 CountMinSketch::with_point_query_properties,
    /// 4 Bloom::with_params, 5 Cuckoo::with_params, 6 CountMinSketch::with_params, 7 QuotientFilter::with_params
    pub which: u8,
    pub n: usize,
    pub p: f64,
    pub seed: u64,
    pub a: usize,
    pub b: usize,
}

/// The constructors without a hasher argument promise the same structure as their `_and_hash` / `_and_hasher`
/// counterparts given `BuildHasherDefault<DefaultHasher>`: same derived parameters and, since that hasher is
/// deterministic, the same answers on the same stream.
pub struct DefaultCtors;

impl Check for DefaultCtors {
    type Case = DcCase;
    fn name(&self) -> &'static str {
        "default_constructors"
    }
    fn eval(&self, c: &DcCase) -> Verdict {
        use crate::support::rng::SmRng;
        use pdatastructs::filters::cuckoofilter::CuckooFilter;
        use std::collections::hash_map::DefaultHasher;
        use std::hash::BuildHasherDefault;
        let bh = BuildHasherDefault::<DefaultHasher>::default();
        let keys: Vec<u64> = (0..c.n.min(300) as u64).map(|i| mix(c.seed, i)).collect();
        let probes: Vec<u64> = (0..300u64).map(|i| mix(c.seed ^ 0x77, i)).collect();
        let which = c.which % 8;
        let r = catch(|| -> Result<(), (String, String)> {
            match which {
                0 | 4 => {
                    let (mut f1, mut f2): (BloomFilter<u64>, BloomFilter<u64>) =
                        if which == 0 { (BloomFilter::with_properties(c.n, c.p), BloomFilter::with_properties_and_hash(c.n, c.p, bh.clone())) } else { (BloomFilter::with_params(c.a, c.b), BloomFilter::with_params_and_hash(c.a, c.b, bh.clone())) };
                    if (f1.m(), f1.k()) != (f2.m(), f2.k()) {
                        return Err(("bloom:default-ctor-params".into(), format!("(m, k) = ({}, {}) without hasher argument but ({}, {}) with the default hasher passed explicitly", f1.m(), f1.k(), f2.m(), f2.k())));
                    }
                    if which == 4 && (f1.m(), f1.k()) != (c.a, c.b) {
                        return Err(("bloom:getters".into(), format!("with_params({}, {}) reports m() = {}, k() = {}", c.a, c.b, f1.m(), f1.k())));
                    }
                    for x in &keys {
                        if f1.insert(x).unwrap() != f2.insert(x).unwrap() {
                            return Err(("bloom:default-ctor-behaviour".into(), format!("insert({}) answers differ between the two constructors", x)));
                        }
                    }
                    if let Some(x) = keys.iter().chain(probes.iter()).find(|x| f1.query(x) != f2.query(x)) {
                        return Err(("bloom:default-ctor-behaviour".into(), format!("query({}) differs between the two constructors", x)));
                    }
                }
                1 | 2 | 5 => {
                    let (mut f1, mut f2): (CuckooFilter<u64, SmRng>, CuckooFilter<u64, SmRng>) = match which {
                        1 => (CuckooFilter::with_properties_4(c.p, c.n, SmRng::new(c.seed)), CuckooFilter::with_properties_and_hash_4(c.p, c.n, SmRng::new(c.seed), bh.clone())),
                        2 => (CuckooFilter::with_properties_8(c.p, c.n, SmRng::new(c.seed)), CuckooFilter::with_properties_and_hash_8(c.p, c.n, SmRng::new(c.seed), bh.clone())),
                        _ => {
                            let (bs, nb, l) = (2 + c.a % 7, 1usize << (1 + c.b % 6), 2 + (c.n % 63));
                            let f: CuckooFilter<u64, SmRng> = CuckooFilter::with_params(SmRng::new(c.seed), bs, nb, l);
                            if (f.bucketsize(), f.n_buckets(), f.l_fingerprint()) != (bs, nb, l) {
                                return Err(("cuckoo:getters".into(), format!("with_params(_, {}, {}, {}) reports bucketsize/n_buckets/l_fingerprint = {}/{}/{}", bs, nb, l, f.bucketsize(), f.n_buckets(), f.l_fingerprint())));
                            }
                            (f, CuckooFilter::with_params_and_hash(SmRng::new(c.seed), bs, nb, l, bh.clone()))
                        }
                    };
                    let (g1, g2) = ((f1.bucketsize(), f1.n_buckets(), f1.l_fingerprint()), (f2.bucketsize(), f2.n_buckets(), f2.l_fingerprint()));
                    if g1 != g2 {
                        return Err(("cuckoo:default-ctor-params".into(), format!("(bucketsize, n_buckets, l_fingerprint) = {:?} without hasher argument but {:?} with the default hasher passed explicitly", g1, g2)));
                    }
                    if which != 5 && g1.0 != if which == 1 { 4 } else { 8 } {
                        return Err(("cuckoo:default-ctor-bucketsize".into(), format!("with_properties_{} built buckets of {} slots", if which == 1 { 4 } else { 8 }, g1.0)));
                    }
                    for x in &keys {
                        if f1.insert(x).is_ok() != f2.insert(x).is_ok() {
                            return Err(("cuckoo:default-ctor-behaviour".into(), format!("insert({}) outcomes differ between the two constructors", x)));
                        }
                    }
                    if f1.len() != f2.len() {
                        return Err(("cuckoo:default-ctor-behaviour".into(), format!("len() {} vs {}", f1.len(), f2.len())));
                    }
                    if let Some(x) = keys.iter().chain(probes.iter()).find(|x| f1.query(x) != f2.query(x)) {
                        return Err(("cuckoo:default-ctor-behaviour".into(), format!("query({}) differs between the two constructors", x)));
                    }
                }
                7 => {
                    use pdatastructs::filters::quotientfilter::QuotientFilter;
                    let q = 1 + c.a % 8;
                    let r = 1 + c.n % (64 - q);
                    let mut f1: QuotientFilter<u64> = QuotientFilter::with_params(q, r);
                    let mut f2: QuotientFilter<u64> = QuotientFilter::with_params_and_hash(q, r, bh.clone());
                    for f in [&f1, &f2] {
                        if (f.bits_quotient(), f.bits_remainder()) != (q, r) {
                            return Err(("quotient:getters".into(), format!("with_params({}, {}) reports bits_quotient/bits_remainder = {}/{}", q, r, f.bits_quotient(), f.bits_remainder())));
                        }
                    }
                    for x in &keys {
                        let (r1, r2) = (f1.insert(x), f2.insert(x));
                        if r1.is_ok() != r2.is_ok() || r1.ok() != r2.ok() {
                            return Err(("quotient:default-ctor-behaviour".into(), format!("insert({}) outcomes differ between the two constructors", x)));
                        }
                    }
                    if f1.len() != f2.len() {
                        return Err(("quotient:default-ctor-behaviour".into(), format!("len() {} vs {}", f1.len(), f2.len())));
                    }
                    if let Some(x) = keys.iter().chain(probes.iter()).find(|x| f1.query(x) != f2.query(x)) {
                        return Err(("quotient:default-ctor-behaviour".into(), format!("query({}) differs between the two constructors", x)));
                    }
                }
                _ => {
                    let (mut s1, mut s2): (CountMinSketch<u64>, CountMinSketch<u64>) = if which == 3 {
                        (CountMinSketch::with_point_query_properties(c.p, 1.0 / (2.0 + c.a as f64)), CountMinSketch::with_point_query_properties_and_hasher(c.p, 1.0 / (2.0 + c.a as f64), bh.clone()))
                    } else {
                        (CountMinSketch::with_params(1 + c.a % 100, 1 + c.b % 8), CountMinSketch::with_params_and_hasher(1 + c.a % 100, 1 + c.b % 8, bh.clone()))
                    };
                    if (s1.w(), s1.d()) != (s2.w(), s2.d()) {
                        return Err(("cms:default-ctor-params".into(), format!("(w, d) = ({}, {}) without hasher argument but ({}, {}) with the default hasher passed explicitly", s1.w(), s1.d(), s2.w(), s2.d())));
                    }
                    if which == 6 && (s1.w(), s1.d()) != (1 + c.a % 100, 1 + c.b % 8) {
                        return Err(("cms:getters".into(), format!("with_params({}, {}) reports w() = {}, d() = {}", 1 + c.a % 100, 1 + c.b % 8, s1.w(), s1.d())));
                    }
                    for x in &keys {
                        if s1.add(x) != s2.add(x) {
                            return Err(("cms:default-ctor-behaviour".into(), format!("add({}) results differ between the two constructors", x)));
                        }
                    }
                    if let Some(x) = keys.iter().chain(probes.iter()).find(|x| s1.query_point(x) != s2.query_point(x)) {
                        return Err(("cms:default-ctor-behaviour".into(), format!("query_point({}) differs between the two constructors", x)));
                    }
                }
            }
            Ok(())
        });
        match r {
            Err(p) => fail(format!("default-ctor-{}", panic_sig(&p)), format!("{:?}: {}", c, p)),
            Ok(Err((sig, msg))) => fail(sig, format!("{} — {:?}", msg, c)),
            Ok(Ok(())) => Verdict::Pass(Info::new(!keys.is_empty(), hash_json(c)).class(["bloom_props", "cuckoo4_props", "cuckoo8_props", "cms_props", "bloom_params", "cuckoo_params", "cms_params", "quotient_params"][which as usize])),
        }
    }
}

/// `whiches`: the constructor kinds this property owns
pub fn default_ctor_strategy(whiches: &'static [u8]) -> BoxedStrategy<DcCase> {
    (prop::sample::select(whiches), prop_oneof![1usize..=20, 1usize..=2000], prop_oneof![Just(0.5f64), Just(0.1), Just(0.01), Just(0.001), 0.0005f64..0.9], any::<u64>(), 1usize..=512, 1usize..=8)
        .prop_map(|(which, n, p, seed, a, b)| DcCase { which, n, p, seed, a, b })
        .boxed()
}

// ---------------------------------------------------------------- with_point_query_properties over its whole accepted domain

#[derive(Clone, Debug, Serialize, Deserialize)]
pub struct PqCase {
    pub epsilon: f64,
    pub delta: f64,
    pub seed: u64,
}

/// Every (epsilon > 0, 0 < delta < 1) the constructor documents as accepted must give a usable sketch: at least one
/// row and one column, and the C02-style exactness on a handful of elements.
pub struct PqUsable;

impl Check for PqUsable {
    type Case = PqCase;
    fn name(&self) -> &'static str {
        "constructor_domain"
    }
    fn eval(&self, c: &PqCase) -> Verdict {
        use crate::support::hashers::{GenBH, HKind};
        let bh = GenBH(HKind::Seeded(c.seed % 1000));
        let made = catch(|| CountMinSketch::<u64, u32, GenBH>::with_point_query_properties_and_hasher(c.epsilon, c.delta, bh));
        let mut s = match made {
            Ok(s) => s,
            Err(p) => return fail(format!("cms-props-ctor-{}", panic_sig(&p)), format!("with_point_query_properties({:e}, {:e}) panicked on accepted input: {}", c.epsilon, c.delta, p)),
        };
        if s.w() < 1 || s.d() < 1 {
            return fail("cms-props:empty-table", format!("with_point_query_properties({:e}, {:e}) gives w = {}, d = {}", c.epsilon, c.delta, s.w(), s.d()));
        }
        let keys: Vec<u64> = (0..6u64).map(|i| mix(c.seed, i)).collect();
        let r = catch(|| -> Result<(), (String, String)> {
            let mut total = 0u32;
            for (i, x) in keys.iter().enumerate() {
                for rep in 1..=(1 + i as u32 % 3) {
                    let ret = s.add(x);
                    total += 1;
                    let q = s.query_point(x);
                    if ret != q {
                        return Err(("cms-props:add-return!=query_point".into(), format!("add returned {} but query_point gives {}", ret, q)));
                    }
                    if q < rep || q > total {
                        return Err(("cms-props:bounds".into(), format!("query_point = {} after {} adds of the element ({} adds in total)", q, rep, total)));
                    }
                    if i == 0 && q != rep {
                        return Err(("cms-props:single-element-not-exact".into(), format!("a stream with one distinct element added {} times is counted as {}", rep, q)));
                    }
                }
            }
            Ok(())
        });
        match r {
            Err(p) => fail(format!("cms-props-use-{}", panic_sig(&p)), format!("sketch from with_point_query_properties({:e}, {:e}) (w = {}, d = {}) panicked in use: {}", c.epsilon, c.delta, s.w(), s.d(), p)),
            Ok(Err((sig, msg))) => fail(sig, format!("{} [epsilon = {:e}, delta = {:e}, w = {}, d = {}]", msg, c.epsilon, c.delta, s.w(), s.d())),
            Ok(Ok(())) => Verdict::Pass(
                Info::new(true, hash_json(c))
                    .class_if(c.epsilon >= 1.0, "epsilon>=1")
                    .class_if(c.delta > 0.99, "delta_next_to_1")
                    .class_if(c.delta < 1e-12, "delta_next_to_0")
                    .class_if(s.w() == 1, "w=1")
                    .class_if(s.d() == 1, "d=1"),
            ),
        }
    }
}

pub fn pq_strategy() -> BoxedStrategy<PqCase> {
    let eps = prop_oneof![
        4 => (-6.0f64..0.5).prop_map(|e| 10f64.powf(e)),
        2 => prop_oneof![Just(1.0f64), Just(2.0), Just(std::f64::consts::E), Just(2.7182818284), Just(2.7182818285), Just(3.0), Just(1e3), Just(1e10), Just(1e100), Just(f64::MAX)],
        1 => (0.0f64..300.0).prop_map(|e| 10f64.powf(e)),
        1 => (1i32..40).prop_map(|k| std::f64::consts::E / k as f64),
    ];
    let delta = prop_oneof![
        4 => 0.001f64..0.999,
        2 => prop_oneof![Just(1.0 - f64::EPSILON / 2.0), Just(1.0 - f64::EPSILON), Just(1.0 - 1e-12), Just(1.0 - 1e-9), Just(0.999999), Just(0.5), Just((-1.0f64).exp()), Just((-2.0f64).exp())],
        2 => (1.0f64..300.0).prop_map(|e| 10f64.powf(-e)),
        1 => Just(f64::MIN_POSITIVE),
        1 => Just(5e-324),
    ];
    (eps, delta, any::<u64>())
        .prop_map(|(epsilon, delta, seed)| {
            // hundreds of rows times millions of columns would be gigabytes per case: wide or tall, not both
            let epsilon = if delta < 1e-6 { epsilon.max(1e-3) } else { epsilon };
            PqCase { epsilon, delta, seed }
        })
        .boxed()
}
