//! `Extend` entry points (default-hasher structures only): the same properties must hold when elements
//! arrive through `Extend::extend` instead of one call per element. Sub-checks of C01, C02 and C17.
use crate::engine::*;
use pdatastructs::countminsketch::CountMinSketch;
use pdatastructs::filters::bloomfilter::BloomFilter;
use pdatastructs::filters::Filter;
use pdatastructs::hyperloglog::HyperLogLog;
use proptest::prelude::*;
use serde::{Deserialize, Serialize};
use std::collections::HashMap;

#[derive(Clone, Debug, Serialize, Deserialize)]
pub struct Case {
    /// Bloom: m; CountMinSketch: w; HyperLogLog: b (4..=12)
    pub p1: usize,
    /// Bloom: k; CountMinSketch: d; HyperLogLog: 0 = Extend<T>, 1 = Extend<&T>
    pub p2: usize,
    pub chunks: Vec<Vec<u64>>,
    pub probes: Vec<u64>,
}

fn info(c: &Case) -> Info {
    let total: usize = c.chunks.iter().map(|x| x.len()).sum();
    let multi = c.chunks.iter().any(|x| x.len() >= 2);
    Info::new(total >= 2 && multi, hash_json(c))
        .class_if(c.chunks.iter().any(|x| x.is_empty()), "empty_chunk")
        .class_if(c.chunks.len() >= 2, "several_chunks")
        .class_if(multi, "chunk_of_two_or_more")
}

pub struct ExtBloom;

impl Check for ExtBloom {
    type Case = Case;
    fn name(&self) -> &'static str {
        "extend_path"
    }
    fn eval(&self, c: &Case) -> Verdict {
        let (m, k) = (c.p1.max(1), c.p2.max(1));
        let mut f1: BloomFilter<u64> = BloomFilter::with_params(m, k);
        let mut f2: BloomFilter<u64> = BloomFilter::with_params(m, k);
        let mut seen: Vec<u64> = vec![];
        for (ci, chunk) in c.chunks.iter().enumerate() {
            if let Err(p) = catch(|| f1.extend(chunk.iter().copied())) {
                return fail(format!("bloom-extend-{}", panic_sig(&p)), format!("extend with chunk #{} ({} elements) panicked: {}", ci, chunk.len(), p));
            }
            for x in chunk {
                f2.insert(x).unwrap();
                seen.push(*x);
            }
            if let Some(x) = seen.iter().find(|x| !f1.query(x)) {
                return fail("bloom-extend:false-negative", format!("after extend with chunk #{} query({}) is false although the element was passed to extend (m={}, k={})", ci, x, m, k));
            }
            if f1.is_empty() != f2.is_empty() || f1.len() != f2.len() {
                return fail("bloom-extend:len!=insert-loop", format!("after chunk #{}: len/is_empty {}/{} via extend but {}/{} via insert", ci, f1.len(), f1.is_empty(), f2.len(), f2.is_empty()));
            }
            if let Some(x) = c.probes.iter().find(|x| f1.query(x) != f2.query(x)) {
                return fail("bloom-extend:query!=insert-loop", format!("after chunk #{}: query({}) = {} via extend but {} via insert (m={}, k={})", ci, x, f1.query(x), f2.query(x), m, k));
            }
        }
        Verdict::Pass(info(c))
    }
}

pub struct ExtCms;

impl Check for ExtCms {
    type Case = Case;
    fn name(&self) -> &'static str {
        "extend_path"
    }
    fn eval(&self, c: &Case) -> Verdict {
        let (w, d) = (c.p1.max(1), c.p2.max(1));
        let mut s1: CountMinSketch<u64> = CountMinSketch::with_params(w, d);
        let mut s2: CountMinSketch<u64> = CountMinSketch::with_params(w, d);
        let mut truth: HashMap<u64, usize> = HashMap::new();
        for (ci, chunk) in c.chunks.iter().enumerate() {
            if let Err(p) = catch(|| s1.extend(chunk.iter().copied())) {
                return fail(format!("cms-extend-{}", panic_sig(&p)), format!("extend with chunk #{} ({} elements) panicked: {}", ci, chunk.len(), p));
            }
            for x in chunk {
                s2.add(x);
                *truth.entry(*x).or_insert(0) += 1;
            }
            for (x, &t) in &truth {
                let q = s1.query_point(x);
                if q < t {
                    return fail("cms-extend:underestimate", format!("after extend with chunk #{} query_point({}) = {} < {} occurrences passed to extend (w={}, d={})", ci, x, q, t, w, d));
                }
            }
            if s1.is_empty() != truth.is_empty() {
                return fail("cms-extend:is_empty", format!("after chunk #{}: is_empty() = {} with {} distinct elements added", ci, s1.is_empty(), truth.len()));
            }
            for x in truth.keys().chain(c.probes.iter()) {
                if s1.query_point(x) != s2.query_point(x) {
                    return fail("cms-extend:query!=add-loop", format!("after chunk #{}: query_point({}) = {} via extend but {} via add (w={}, d={})", ci, x, s1.query_point(x), s2.query_point(x), w, d));
                }
            }
        }
        Verdict::Pass(info(c))
    }
}

pub struct ExtHll;

impl Check for ExtHll {
    type Case = Case;
    fn name(&self) -> &'static str {
        "extend_path"
    }
    fn eval(&self, c: &Case) -> Verdict {
        let b = c.p1.clamp(4, 18);
        let by_ref = c.p2 % 2 == 1;
        let mut h1: HyperLogLog<u64> = HyperLogLog::new(b);
        let mut h2: HyperLogLog<u64> = HyperLogLog::new(b);
        for (ci, chunk) in c.chunks.iter().enumerate() {
            let r = if by_ref { catch(|| h1.extend(chunk.iter())) } else { catch(|| h1.extend(chunk.iter().copied())) };
            if let Err(p) = r {
                return fail(format!("hll-extend-{}", panic_sig(&p)), format!("extend with chunk #{} ({} elements) panicked: {}", ci, chunk.len(), p));
            }
            for x in chunk {
                h2.add(x);
            }
            if h1.registers() != h2.registers() {
                let j = (0..h1.registers().len()).find(|&j| h1.registers()[j] != h2.registers()[j]).unwrap();
                return fail(
                    "hll-extend:registers!=add-loop",
                    format!("after chunk #{} ({}): register {} is {} via extend but {} via add (b={})", ci, if by_ref { "Extend<&T>" } else { "Extend<T>" }, j, h1.registers()[j], h2.registers()[j], b),
                );
            }
            if h1.count() != h2.count() || h1.is_empty() != h2.is_empty() {
                return fail("hll-extend:count!=add-loop", format!("after chunk #{}: count/is_empty {}/{} via extend, {}/{} via add", ci, h1.count(), h1.is_empty(), h2.count(), h2.is_empty()));
            }
        }
        Verdict::Pass(info(c).class_if(by_ref, "extend_by_reference"))
    }
}

pub fn strategy(p1: BoxedStrategy<usize>, p2: BoxedStrategy<usize>) -> BoxedStrategy<Case> {
    let key = prop_oneof![3 => 0u64..20, 1 => any::<u64>()];
    (p1, p2, prop::collection::vec(prop::collection::vec(key.clone(), 0..12), 0..6), prop::collection::vec(key, 0..30))
        .prop_map(|(p1, p2, chunks, probes)| Case { p1, p2, chunks, probes })
        .boxed()
}

pub fn bloom_strategy() -> BoxedStrategy<Case> {
    strategy(prop_oneof![1usize..=16, 1usize..=512].boxed(), (1usize..=8).boxed())
}

pub fn cms_strategy() -> BoxedStrategy<Case> {
    strategy(prop_oneof![1usize..=4, 1usize..=64].boxed(), (1usize..=4).boxed())
}

pub fn hll_strategy() -> BoxedStrategy<Case> {
    strategy((4usize..=12).boxed(), (0usize..=1).boxed())
}
