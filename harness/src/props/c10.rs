//! C10 — CMSHeap returns the k most frequent elements up to sketch error.
use crate::engine::*;
use pdatastructs::countminsketch::CountMinSketch;
use pdatastructs::topk::cmsheap::CMSHeap;
use proptest::prelude::*;
use serde::{Deserialize, Serialize};
use std::collections::{BTreeSet, HashMap};

#[derive(Clone, Debug, Serialize, Deserialize)]
pub enum Stream {
    Explicit(Vec<u16>),
    Uniform { alphabet: u32, len: u32, seed: u64 },
    Zipf { alphabet: u32, len: u32, seed: u64 },
    Rotating { alphabet: u32, len: u32 },
    /// `base` elements repeated `reps` times each (heap fills), then newcomers hammering
    Newcomer { base: u32, reps: u32, newcomers: u32, len: u32, seed: u64 },
    Blocks { alphabet: u32, block: u32, len: u32 },
}

#[derive(Clone, Debug, Serialize, Deserialize)]
pub struct Case {
    pub k: usize,
    pub w: usize,
    pub d: usize,
    pub stream: Stream,
    /// 0: one `add` per element; n > 0: elements arrive through `Extend::extend` in chunks of n (checked at chunk ends)
    #[serde(default)]
    pub extend_chunk: u16,
}

fn materialise(s: &Stream) -> Vec<u64> {
    match s {
        Stream::Explicit(v) => v.iter().map(|&x| x as u64).collect(),
        Stream::Uniform { alphabet, len, seed } => {
            let mut g = stat::SplitMix64(*seed);
            (0..*len).map(|_| g.below((*alphabet).max(1) as u64)).collect()
        }
        Stream::Zipf { alphabet, len, seed } => {
            let mut g = stat::SplitMix64(*seed);
            let a = (*alphabet).max(1) as f64;
            (0..*len).map(|_| ((a + 1.0).powf(g.f64()) - 1.0).floor() as u64).collect()
        }
        Stream::Rotating { alphabet, len } => (0..*len as u64).map(|i| i % (*alphabet).max(1) as u64).collect(),
        Stream::Newcomer { base, reps, newcomers, len, seed } => {
            let mut v = vec![];
            for r in 0..*reps {
                let _ = r;
                for b in 0..*base as u64 {
                    v.push(b);
                }
            }
            let mut g = stat::SplitMix64(*seed);
            while v.len() < *len as usize {
                v.push(1000 + g.below((*newcomers).max(1) as u64));
            }
            v.truncate(*len as usize);
            v
        }
        Stream::Blocks { alphabet, block, len } => (0..*len as u64).map(|i| (i / (*block).max(1) as u64) % (*alphabet).max(1) as u64).collect(),
    }
}

pub struct C10;

impl Check for C10 {
    type Case = Case;
    fn name(&self) -> &'static str {
        "prefixes"
    }
    fn eval(&self, c: &Case) -> Verdict {
        let items = materialise(&c.stream);
        // pass 1: E = largest overestimate of an identical shadow sketch on this stream
        let mut shadow: CountMinSketch<u64> = CountMinSketch::with_params(c.w, c.d);
        let mut truth: HashMap<u64, usize> = HashMap::new();
        for &x in &items {
            shadow.add(&x);
            *truth.entry(x).or_insert(0) += 1;
        }
        let e_max: usize = truth.iter().map(|(k, &t)| shadow.query_point(k) - t).max().unwrap_or(0);
        // pass 2
        let mut heap: CMSHeap<u64> = CMSHeap::new(c.k, CountMinSketch::with_params(c.w, c.d));
        if !heap.is_empty() || heap.iter().count() != 0 {
            return fail("fresh-not-empty", "fresh CMSHeap is not empty".to_string());
        }
        let mut truth: HashMap<u64, usize> = HashMap::new();
        let mut prev: BTreeSet<u64> = BTreeSet::new();
        let mut displacement = false;
        let mut checked = 0u64;
        let chunk = c.extend_chunk as usize;
        let mut pos = 0usize;
        while pos < items.len() {
            let end = if chunk == 0 { pos + 1 } else { (pos + chunk).min(items.len()) };
            let r = if chunk == 0 { catch(|| heap.add(items[pos])) } else { catch(|| heap.extend(items[pos..end].iter().copied())) };
            if let Err(p) = r {
                return fail(
                    panic_sig(&p),
                    format!("{} #{} (element {}) panicked: {} [k={}, sketch {}x{}]", if chunk == 0 { "add" } else { "extend ending at add" }, end, items[end - 1], p, c.k, c.w, c.d),
                );
            }
            for &x in &items[pos..end] {
                *truth.entry(x).or_insert(0) += 1;
            }
            pos = end;
            let n = end;
            if n > 400 && n % 7 != 0 && n != items.len() {
                continue;
            }
            checked += 1;
            let res: Vec<u64> = heap.iter().collect();
            let set: BTreeSet<u64> = res.iter().copied().collect();
            let want = c.k.min(truth.len());
            if set.len() != res.len() {
                return fail("iter-duplicates", format!("after {} adds iter() yields {:?} (duplicates)", n, res));
            }
            if res.len() != want {
                return fail(
                    if res.len() > want { "iter-too-many" } else { "iter-too-few" },
                    format!("after {} adds iter() yields {} elements, expected min(k={}, distinct={}) = {}", n, res.len(), c.k, truth.len(), want),
                );
            }
            if let Some(bad) = res.iter().find(|y| !truth.contains_key(y)) {
                return fail("iter-never-added", format!("after {} adds iter() yields {} which was never added", n, bad));
            }
            if heap.is_empty() {
                return fail("is_empty-after-add", format!("is_empty() after {} adds", n));
            }
            // x missing only if >= k others have true >= true(x) - E
            if truth.len() > c.k {
                let mut sorted: Vec<usize> = truth.values().copied().collect();
                sorted.sort_unstable();
                for (&y, &t) in &truth {
                    if set.contains(&y) {
                        continue;
                    }
                    let thr = t.saturating_sub(e_max);
                    let ge = sorted.len() - sorted.partition_point(|&v| v < thr);
                    let others = ge - 1; // y itself has true >= thr
                    if others < c.k {
                        return fail(
                            if e_max == 0 { "missing-top-element-exact-sketch" } else { "missing-top-element" },
                            format!(
                                "after {} adds element {} (true count {}) is missing from iter() = {:?} although only {} other elements have true count >= {} - E (E = {}, k = {}, sketch {}x{})",
                                n, y, t, res, others, t, e_max, c.k, c.w, c.d
                            ),
                        );
                    }
                }
            }
            if prev.iter().any(|p| !set.contains(p)) {
                displacement = true;
            }
            prev = set;
        }
        let nontrivial = truth.len() > c.k && displacement;
        let mut info = Info::new(nontrivial, hash64(&(c.k, c.w, c.d, &items, c.extend_chunk)))
            .class_if(displacement, "displacement")
            .class_if(e_max == 0 && truth.len() > 1, "exact_sketch")
            .class_if(e_max > 0, "sketch_collisions")
            .class_if(c.w * c.d == 1, "1x1_sketch")
            .class_if(chunk > 0, "via_extend");
        info.inner_evals = checked;
        Verdict::Pass(info)
    }
}

fn strategy(tier: Tier) -> BoxedStrategy<Case> {
    let maxlen = tier.pick(400u32, 5_000u32);
    let kmax = tier.pick(8usize, 32usize);
    let stream = prop_oneof![
        5 => prop::collection::vec(prop_oneof![0u16..4, 0u16..12, 0u16..200], 0..200).prop_map(Stream::Explicit),
        2 => (1u32..200, 0u32..maxlen, any::<u64>()).prop_map(|(alphabet, len, seed)| Stream::Uniform { alphabet, len, seed }),
        2 => (1u32..200, 0u32..maxlen, any::<u64>()).prop_map(|(alphabet, len, seed)| Stream::Zipf { alphabet, len, seed }),
        1 => (1u32..40, 0u32..maxlen).prop_map(|(alphabet, len)| Stream::Rotating { alphabet, len }),
        2 => (1u32..12, 1u32..6, 1u32..8, 0u32..maxlen, any::<u64>()).prop_map(|(base, reps, newcomers, len, seed)| Stream::Newcomer { base, reps, newcomers, len, seed }),
        1 => (1u32..40, 1u32..20, 0u32..maxlen).prop_map(|(alphabet, block, len)| Stream::Blocks { alphabet, block, len }),
    ];
    (
        prop_oneof![30 => 1usize..=kmax, 1 => prop_oneof![Just(usize::MAX), Just(1usize << 62), Just(1000usize)]],
        prop_oneof![
            3 => (1usize..=4, 1usize..=2),
            3 => (1usize..=64, 1usize..=4),
            2 => Just((4096usize, 4usize)),
        ],
        stream,
        prop_oneof![10 => Just(0u16), 2 => 1u16..40, 1 => 40u16..1200],
    )
        .prop_map(|(k, (w, d), stream, extend_chunk)| Case { k, w, d, stream, extend_chunk })
        .boxed()
}

/// Every stream over a tiny alphabet up to a length bound for small k and three sketch shapes.
fn exhaustive(ctx: &Ctx, alphabet: u16, max_len: usize) {
    let a = alphabet as usize;
    let n_streams: usize = (0..=max_len).map(|l| a.pow(l as u32)).sum();
    let cfgs: Vec<(usize, usize, usize)> = vec![(1, 1, 1), (2, 1, 1), (1, 2, 1), (2, 2, 1), (3, 3, 2), (1, 4096, 4), (2, 4096, 4), (3, 4096, 4)];
    ctx.run_indexed("exhaustive_small_streams", n_streams * cfgs.len(), |i, acc| {
        let (k, w, d) = cfgs[i % cfgs.len()];
        let mut code = i / cfgs.len();
        let mut len = 0usize;
        loop {
            let cnt = a.pow(len as u32);
            if code < cnt {
                break;
            }
            code -= cnt;
            len += 1;
        }
        let mut items = Vec::with_capacity(len);
        for _ in 0..len {
            items.push((code % a) as u16);
            code /= a;
        }
        let case = Case { k, w, d, stream: Stream::Explicit(items), extend_chunk: 0 };
        match guarded_eval(&C10, &case) {
            Verdict::Fail { sig, msg } => Some((serde_json::to_value(&case).unwrap(), sig, msg)),
            Verdict::Pass(info) => {
                acc.pass_enum(info.nontrivial, || serde_json::to_value(&case).unwrap());
                None
            }
        }
    });
    ctx.mark_exhaustive(
        "exhaustive_small_streams",
        format!("every stream over an alphabet of {} elements up to length {} for (k, w, d) in {:?}, every prefix", alphabet, max_len, cfgs),
    );
}

pub fn checks() -> Vec<Box<dyn DynCheck>> {
    vec![Box::new(C10)]
}

pub fn run(ctx: &Ctx) {
    ctx.set_rule("exhaustive: every stream over a 4-element alphabet up to length 8 (thorough: 10, and 5 elements up to length 8) for k in 1..=3 and sketches 1x1, 2x1, 3x2, 4096x4, every prefix. generated: k in 1..=8 (32 thorough; rarely 1000, 2^62, usize::MAX: nothing is ever displaced), sketch (w, d) from 1x1 (everything collides) to collision-free 4096x4, alphabets 1..200 with ties, streams (explicit shrinkable lists, uniform, zipf, rotating, newcomers after the heap is full, sorted blocks), checked at every prefix up to 400 and every 7th beyond; a sixth of the cases feed the stream through Extend::extend in chunks (checked at chunk ends). Oracle: exact counts + a shadow CountMinSketch with identical parameters fed the same stream (E = its largest overestimate): iter() yields exactly min(k, distinct) distinct seen elements; a missing x has >= k other elements with true count >= true(x) - E; is_empty; add never panics (harness built with debug assertions on). Non-trivial: distinct seen > k and a displacement observed (an element left the result). Distinct = (k, w, d, stream).");
    ctx.assume("CMSHeap::new takes a CountMinSketch with the default hasher, so the shadow sketch with equal (w, d) is identical to the internal one");
    ctx.run_regressions(&[&C10]);
    let t = ctx.tier;
    match t {
        Tier::Quick => exhaustive(ctx, 4, 8),
        Tier::Thorough => {
            exhaustive(ctx, 4, 10);
            exhaustive(ctx, 5, 8);
        }
    }
    ctx.run_random(&C10, t.pick(500_000, 3_000_000), move || strategy(t));
    ctx.require_class("prefixes", "displacement", 0.2);
    ctx.require_class("prefixes", "sketch_collisions", 0.2);
    ctx.require_class("prefixes", "exact_sketch", 0.15);
    if ctx.tier == Tier::Thorough && !ctx.failed() {
        // coverage-guided search over the same case space (libFuzzer, 8 parallel campaigns)
        crate::engine::fuzz::run_sketch_ops(ctx, 2, 480_000);
    }
}
