//! C03 — HyperLogLog estimates stay within the advertised relative error.
use crate::engine::stat::*;
use crate::engine::*;
use crate::support::hashers::{GenBH, HKind};
use pdatastructs::hyperloglog::HyperLogLog;
use proptest::prelude::*;
use serde::{Deserialize, Serialize};
use serde_json::json;
use std::collections::BTreeMap;
use std::sync::Mutex;

#[derive(Clone, Copy, Debug, PartialEq, Eq, Hash, PartialOrd, Ord, Serialize, Deserialize)]
pub enum Source {
    /// independent random 64-bit words through add_hashed
    RandomHashes,
    /// add(&i) of sequential integers under a seeded SipHash
    SeqInts,
    /// add("key-<i>") of strings under a seeded SipHash
    Strings,
}

/// One replayable statistical cell: re-measures (b, n) from `seeds` fresh trajectories.
#[derive(Clone, Debug, Serialize, Deserialize)]
pub struct Cell {
    pub b: usize,
    pub n: u64,
    pub source: Source,
    pub seeds: u32,
    pub seed: u64,
}

const RMS_OUT: f64 = 1.25;
const RMS_BUMP: f64 = 2.2;
const MEAN_MAX: f64 = 0.75;
/// raw-estimate regime (n >= 6 m): no empirical table is involved and the estimator is unbiased in
/// theory; the unchanged tree measures |mean| <= 0.05 x RE there (noise level, 6000..60000 seeds)
const MEAN_MAX_RAW: f64 = 0.1;
const EXC_FRAC: f64 = 0.05;

fn relative_error(b: usize) -> f64 {
    HyperLogLog::<u64>::new(b).relative_error()
}

/// raw errors count() - n at each checkpoint for one trajectory
fn trajectory(b: usize, source: Source, seed: u64, checkpoints: &[u64]) -> Vec<f64> {
    let mut out = Vec::with_capacity(checkpoints.len());
    let mut ci = 0;
    let last = *checkpoints.last().unwrap_or(&0);
    match source {
        Source::RandomHashes => {
            let mut h: HyperLogLog<u64, GenBH> = HyperLogLog::with_hash(b, GenBH(HKind::Ident));
            let mut g = SplitMix64(seed);
            let mut n = 0u64;
            while ci < checkpoints.len() && checkpoints[ci] == 0 {
                out.push(h.count() as f64);
                ci += 1;
            }
            while n < last {
                h.add_hashed(g.next());
                n += 1;
                while ci < checkpoints.len() && checkpoints[ci] == n {
                    out.push(h.count() as f64 - n as f64);
                    ci += 1;
                }
            }
        }
        Source::SeqInts => {
            let mut h: HyperLogLog<u64, GenBH> = HyperLogLog::with_hash(b, GenBH(HKind::Seeded(seed % (1 << 48))));
            let base = seed >> 20;
            let mut n = 0u64;
            while ci < checkpoints.len() && checkpoints[ci] == 0 {
                out.push(h.count() as f64);
                ci += 1;
            }
            while n < last {
                h.add(&(base + n));
                n += 1;
                while ci < checkpoints.len() && checkpoints[ci] == n {
                    out.push(h.count() as f64 - n as f64);
                    ci += 1;
                }
            }
        }
        Source::Strings => {
            let mut h: HyperLogLog<str, GenBH> = HyperLogLog::with_hash(b, GenBH(HKind::Seeded(seed % (1 << 48))));
            let mut n = 0u64;
            while ci < checkpoints.len() && checkpoints[ci] == 0 {
                out.push(h.count() as f64);
                ci += 1;
            }
            let mut buf = String::new();
            while n < last {
                use std::fmt::Write;
                buf.clear();
                let _ = write!(buf, "key-{}", n);
                h.add(&buf);
                n += 1;
                while ci < checkpoints.len() && checkpoints[ci] == n {
                    out.push(h.count() as f64 - n as f64);
                    ci += 1;
                }
            }
        }
    }
    out
}

#[derive(Debug)]
struct CellStat {
    rms: f64,
    mean: f64,
    mean_se: f64,
    exceed: u64,
    seeds: usize,
    flags: Vec<(String, String)>,
}

fn judge(b: usize, n: u64, errs: &[f64]) -> CellStat {
    let m = (1u64 << b) as f64;
    let re = relative_error(b);
    let scale = n as f64 * re;
    let r: Vec<f64> = errs.iter().map(|&e| e.signum() * (e.abs() - 2.0).max(0.0) / scale).collect();
    let sq: Vec<f64> = r.iter().map(|x| x * x).collect();
    let in_bump = n as f64 >= 0.5 * m && n as f64 <= 2.0 * m;
    let bound = if in_bump { RMS_BUMP } else { RMS_OUT };
    let s = summarize(&r);
    let ssq = summarize(&sq);
    let exceed = r.iter().filter(|x| x.abs() > 3.0).count() as u64;
    let mut flags = vec![];
    let regime = if in_bump { "bump" } else if (n as f64) < 0.5 * m { "linear-counting" } else if (n as f64) <= 5.0 * m { "bias-corrected" } else { "raw" };
    if mean_above(&sq, bound * bound, Z) {
        flags.push((
            format!("rms:{}", regime),
            format!("RMS relative error {:.3} x relative_error() over {} seeds exceeds the allowed {} x (b = {}, n = {} = {:.2} m)", ssq.mean.sqrt(), r.len(), bound, b, n, n as f64 / m),
        ));
    }
    let mean_max = if n as f64 >= 6.0 * m { MEAN_MAX_RAW } else { MEAN_MAX };
    if s.mean.abs() - Z * s.se > mean_max {
        flags.push((
            format!("mean:{}", regime),
            format!("mean relative error {:+.3} x relative_error() (s.e. {:.3}) over {} seeds is not close to zero (allowed |mean| <= {}) (b = {}, n = {} = {:.2} m)", s.mean, s.se, r.len(), mean_max, b, n, n as f64 / m),
        ));
    }
    if binom_above(exceed, r.len() as u64, EXC_FRAC, Z) {
        flags.push((
            format!("exceed3:{}", regime),
            format!("{} of {} seeds are off by more than 3 x relative_error() (allowed {} %) (b = {}, n = {} = {:.2} m)", exceed, r.len(), EXC_FRAC * 100.0, b, n, n as f64 / m),
        ));
    }
    CellStat { rms: ssq.mean.sqrt(), mean: s.mean, mean_se: s.se, exceed, seeds: r.len(), flags }
}

pub struct Cells;

impl Check for Cells {
    type Case = Cell;
    fn name(&self) -> &'static str {
        "cells"
    }
    /// replay / confirmation of one cell (used for regressions and violation replays)
    fn eval(&self, c: &Cell) -> Verdict {
        let errs: Vec<f64> = (0..c.seeds as u64).map(|s| trajectory(c.b, c.source, mix(c.seed, s), &[c.n])[0]).collect();
        let st = judge(c.b, c.n, &errs);
        if let Some((sig, msg)) = st.flags.first() {
            return fail(format!("b={}:{:?}:{}", c.b, c.source, sig), msg.clone());
        }
        Verdict::Pass(Info::new(true, hash64(&(c.b, c.n, c.source))))
    }
}

fn fractions(tier: Tier, seed: u64, b: usize) -> Vec<f64> {
    let mut f: Vec<f64> = match tier {
        Tier::Quick => {
            // step 0.1 m up to 6 m: every 6-nearest-neighbour window of the bias tables (about 0.14 m wide)
            // contains a checkpoint
            let mut v: Vec<f64> = (1..=60).map(|i| i as f64 * 0.1).collect();
            v.extend([0.05, 0.75, 1.25, 1.75, 7.0, 8.0, 10.0, 12.0, 20.0, 35.0, 50.0]);
            v
        }
        Tier::Thorough => {
            let mut v: Vec<f64> = (1..=120).map(|i| i as f64 * 0.05).collect();
            v.extend([6.5, 7.0, 8.0, 9.0, 10.0, 12.0, 15.0, 20.0, 25.0, 30.0, 35.0, 40.0, 45.0, 50.0]);
            let mut g = SplitMix64(mix(mix_str(seed, "c03-n"), b as u64));
            for _ in 0..6 {
                v.push(50.0 * g.f64().powi(2));
            }
            v
        }
    };
    f.sort_by(|a, b| a.partial_cmp(b).unwrap());
    f
}

fn seeds_for(tier: Tier, b: usize, source: Source) -> u32 {
    let base = match b {
        4..=7 => 40_000,
        8..=10 => 4000,
        11..=14 => 1600,
        _ => 400,
    };
    let base = if source == Source::RandomHashes { base } else { base / 4 };
    tier.pick(base, base * 15)
}

fn run_cells(ctx: &Ctx) {
    let tier = ctx.tier;
    // (b, source) groups
    let mut groups: Vec<(usize, Source, Vec<u64>)> = vec![];
    for b in 4..=18usize {
        let m = 1u64 << b;
        let mut cps: Vec<u64> = fractions(tier, ctx.seed, b).iter().map(|f| (f * m as f64).round() as u64).filter(|&n| n >= 1).collect();
        cps.sort_unstable();
        cps.dedup();
        groups.push((b, Source::RandomHashes, cps.clone()));
        if b <= 14 {
            groups.push((b, Source::SeqInts, cps.clone()));
        }
        if b <= 12 {
            let lim = 8 * m;
            groups.push((b, Source::Strings, cps.iter().copied().filter(|&n| n <= lim).collect()));
        }
    }
    // tasks: (group index, seed chunk)
    let mut tasks: Vec<(usize, u32, u32)> = vec![];
    for (gi, (b, src, _)) in groups.iter().enumerate() {
        let s = seeds_for(tier, *b, *src);
        let chunk = if *b >= 15 { 2 } else if *b >= 11 { 16 } else { 100 };
        let mut lo = 0;
        while lo < s {
            tasks.push((gi, lo, (lo + chunk).min(s)));
            lo += chunk;
        }
    }
    // heavy tasks first
    tasks.sort_by_key(|t| std::cmp::Reverse(groups[t.0].0));
    let results: Mutex<BTreeMap<usize, Vec<Vec<f64>>>> = Mutex::new(BTreeMap::new());
    ctx.run_indexed("trajectories", tasks.len(), |ti, acc| {
        let (gi, lo, hi) = tasks[ti];
        let (b, src, cps) = &groups[gi];
        let mut local: Vec<Vec<f64>> = vec![vec![]; cps.len()];
        for s in lo..hi {
            let seed = mix(mix(ctx.sub_seed("trajectories", *b as u64), *src as u64), s as u64);
            let errs = trajectory(*b, *src, seed, cps);
            for (i, e) in errs.into_iter().enumerate() {
                local[i].push(e);
            }
            acc.pass_light(false, 0, || json!({"b": b, "source": format!("{:?}", src), "seed": seed, "adds": cps.last()}));
            acc.class_n("adds", *cps.last().unwrap_or(&0));
        }
        let mut r = results.lock().unwrap();
        let e = r.entry(gi).or_insert_with(|| vec![vec![]; cps.len()]);
        for (i, v) in local.into_iter().enumerate() {
            e[i].extend(v);
        }
        None
    });
    // judge every cell; confirm flagged ones
    let results = results.into_inner().unwrap();
    let mut to_confirm: Vec<(Cell, String, String)> = vec![];
    let mut rows = vec![];
    let mut nontrivial = 0usize;
    for (gi, per_cp) in &results {
        let (b, src, cps) = &groups[*gi];
        for (i, errs) in per_cp.iter().enumerate() {
            let n = cps[i];
            let st = judge(*b, n, errs);
            nontrivial += 1;
            rows.push(json!({"b": b, "n": n, "n_over_m": ((n as f64 / (1u64 << b) as f64) * 1000.0).round() / 1000.0, "source": format!("{:?}", src), "seeds": st.seeds,
                "rms_over_re": (st.rms * 1000.0).round() / 1000.0, "mean_over_re": (st.mean * 1000.0).round() / 1000.0, "mean_se": (st.mean_se * 1000.0).round() / 1000.0, "exceed3": st.exceed}));
            if let Some((sig, msg)) = st.flags.first() {
                to_confirm.push((Cell { b: *b, n, source: *src, seeds: (4 * st.seeds as u32).min(6400), seed: mix_str(ctx.seed, &format!("confirm-{}-{}-{:?}", b, n, src)) }, sig.clone(), msg.clone()));
            }
        }
    }
    // keep the evidence readable: worst cells per b
    rows.sort_by(|a, b| b["rms_over_re"].as_f64().partial_cmp(&a["rms_over_re"].as_f64()).unwrap());
    let mut per_b: BTreeMap<u64, Vec<serde_json::Value>> = BTreeMap::new();
    for r in &rows {
        let e = per_b.entry(r["b"].as_u64().unwrap()).or_default();
        if e.len() < 4 {
            e.push(r.clone());
        }
    }
    let mut worst_mean_per_b: BTreeMap<u64, serde_json::Value> = BTreeMap::new();
    for r in &rows {
        let b = r["b"].as_u64().unwrap();
        let m = r["mean_over_re"].as_f64().unwrap().abs();
        let cur = worst_mean_per_b.get(&b).map(|v| v["mean_over_re"].as_f64().unwrap().abs()).unwrap_or(-1.0);
        if m > cur {
            worst_mean_per_b.insert(b, r.clone());
        }
    }
    ctx.put_extra("worst_abs_mean_cell_per_b", json!(worst_mean_per_b));
    // the same restricted to the raw-estimate regime (n >= 6 m), where no empirical table is involved
    let mut worst_raw: BTreeMap<u64, serde_json::Value> = BTreeMap::new();
    for r in &rows {
        if r["n_over_m"].as_f64().unwrap() < 6.0 {
            continue;
        }
        let b = r["b"].as_u64().unwrap();
        let m = r["mean_over_re"].as_f64().unwrap().abs();
        let cur = worst_raw.get(&b).map(|v| v["mean_over_re"].as_f64().unwrap().abs()).unwrap_or(-1.0);
        if m > cur {
            worst_raw.insert(b, r.clone());
        }
    }
    ctx.put_extra("worst_abs_mean_cell_per_b_raw_regime", json!(worst_raw));
    ctx.put_extra("cells_measured", json!(rows.len()));
    ctx.put_extra("worst_rms_cells_per_b", json!(per_b));
    let worst_mean = rows.iter().max_by(|a, b| a["mean_over_re"].as_f64().unwrap().abs().partial_cmp(&b["mean_over_re"].as_f64().unwrap().abs()).unwrap()).cloned();
    ctx.put_extra("worst_mean_cell", json!(worst_mean));
    ctx.put_extra("bounds", json!({"rms_outside_bump": RMS_OUT, "rms_in_bump(0.5m..2m)": RMS_BUMP, "abs_mean": MEAN_MAX, "abs_mean_raw_regime(n>=6m)": MEAN_MAX_RAW, "fraction_beyond_3RE": EXC_FRAC, "integer_allowance_units": 2}));
    // register the cells as distinct non-trivial cases
    let keys: Vec<u64> = results.iter().flat_map(|(gi, per_cp)| { let (b, src, cps) = &groups[*gi]; (0..per_cp.len()).map(move |i| hash64(&(*b, cps[i], *src))) }).collect();
    ctx.run_indexed("cells", keys.len(), |i, acc| {
        acc.pass_light(true, keys[i], || rows.get(i).cloned().unwrap_or(json!({})));
        None
    });
    let _ = nontrivial;
    // confirmation
    for (cell, sig, msg) in to_confirm {
        match Cells.eval(&cell) {
            Verdict::Pass(_) => ctx.note("cells", format!("screening flagged b={} n={} {:?} ({}), confirmation with {} fresh seeds passed", cell.b, cell.n, cell.source, sig, cell.seeds)),
            Verdict::Fail { sig: s2, msg: m2 } => {
                ctx.handle_fail("cells", &serde_json::to_value(&cell).unwrap(), &s2, &format!("{} [screening: {}]", m2, msg), None);
            }
        }
    }
}

// ------------------------------------------------------------------ exact sub-checks

#[derive(Clone, Debug, Serialize, Deserialize)]
pub enum Shape {
    AllEqual(u8),
    OneHot { at: u16, v: u8 },
    Random { seed: u64, max: u8 },
    HalfZero { seed: u64, max: u8 },
    Explicit(Vec<u8>),
    /// no zero register: values uniform in lo..=hi (lo >= 1)
    NoZero { seed: u64, lo: u8, hi: u8 },
    /// `permille` of the registers non-zero (values 1..=max), the rest zero
    Sparse { seed: u64, permille: u16, max: u8 },
}

#[derive(Clone, Debug, Serialize, Deserialize)]
pub enum ECase {
    Empty { b: usize },
    Few { b: usize, hashes: Vec<u64>, same_register: bool },
    Registers { b: usize, shape: Shape },
}

pub struct Exact;

impl Check for Exact {
    type Case = ECase;
    fn name(&self) -> &'static str {
        "exact"
    }
    fn eval(&self, c: &ECase) -> Verdict {
        match c {
            ECase::Empty { b } => {
                let h: HyperLogLog<u64, GenBH> = HyperLogLog::with_hash(*b, GenBH(HKind::Ident));
                match catch(|| h.count()) {
                    Ok(0) => Verdict::Pass(Info::new(false, hash_json(c)).class("empty")),
                    Ok(x) => fail("empty-counts-nonzero", format!("empty sketch with b = {} counts {}", b, x)),
                    Err(p) => fail(panic_sig(&p), format!("count() on an empty sketch panicked: {}", p)),
                }
            }
            ECase::Few { b, hashes, same_register } => {
                let mut h: HyperLogLog<u64, GenBH> = HyperLogLog::with_hash(*b, GenBH(HKind::Ident));
                let mask = (1u64 << b) - 1;
                let mut regs = std::collections::BTreeSet::new();
                for (i, &x) in hashes.iter().enumerate() {
                    // distinct registers unless the case asks for a shared one
                    let x = if *same_register && i == 1 { (x & !mask) | (hashes[0] & mask) } else { x };
                    h.add_hashed(x);
                    regs.insert(x & mask);
                }
                let r = regs.len() as i64;
                match catch(|| h.count()) {
                    Ok(cnt) => {
                        if (cnt as i64 - r).abs() > 1 {
                            return fail("small-count-off", format!("b = {}: {} adds hitting {} distinct registers are counted as {}", b, hashes.len(), r, cnt));
                        }
                        Verdict::Pass(Info::new(r as usize == hashes.len() && r >= 1, hash_json(c)).class("few_elements").class_if(r as usize == hashes.len(), "distinct_registers"))
                    }
                    Err(p) => fail(panic_sig(&p), format!("count() panicked: {}", p)),
                }
            }
            ECase::Registers { b, shape } => {
                let m = 1usize << b;
                let regs: Vec<u8> = match shape {
                    Shape::AllEqual(v) => vec![*v; m],
                    Shape::OneHot { at, v } => {
                        let mut r = vec![0u8; m];
                        r[idx(*at, m)] = *v;
                        r
                    }
                    Shape::Random { seed, max } => {
                        let mut g = SplitMix64(*seed);
                        (0..m).map(|_| g.below(*max as u64 + 1) as u8).collect()
                    }
                    Shape::HalfZero { seed, max } => {
                        let mut g = SplitMix64(*seed);
                        (0..m).map(|i| if i % 2 == 0 { 0 } else { g.below(*max as u64 + 1) as u8 }).collect()
                    }
                    Shape::Explicit(v) => {
                        let mut r = vec![0u8; m];
                        for (i, x) in v.iter().enumerate().take(m) {
                            r[i] = *x;
                        }
                        r
                    }
                    Shape::NoZero { seed, lo, hi } => {
                        let mut g = SplitMix64(*seed);
                        let (lo, hi) = ((*lo).max(1), (*hi).max((*lo).max(1)));
                        (0..m).map(|_| lo + g.below((hi - lo) as u64 + 1) as u8).collect()
                    }
                    Shape::Sparse { seed, permille, max } => {
                        let mut g = SplitMix64(*seed);
                        (0..m).map(|_| if g.below(1000) < *permille as u64 { 1 + g.below((*max).max(1) as u64) as u8 } else { 0 }).collect()
                    }
                };
                let r = catch(|| {
                    let h: HyperLogLog<u64, GenBH> = HyperLogLog::with_registers_and_hash(*b, regs.clone(), GenBH(HKind::Ident));
                    let c1 = h.count();
                    let mut g = h.clone();
                    g.add_hashed(u64::MAX);
                    g.add_hashed(0);
                    (c1, g.count())
                });
                match r {
                    Ok((c1, _)) => {
                        // reference: the estimator of the papers the documentation names (Flajolet et al. 2007; Heule et al.
                        // 2013, figure 6) in the two regimes where no empirical table enters:
                        //   no zero register and E = alpha_m m^2 / sum 2^-M[j] > 5m      ->  count = E
                        //   V >= 0.62 m zero registers (linear counting <= 0.48 m, below every published threshold) -> count = m ln(m / V)
                        let mf = m as f64;
                        let v = regs.iter().filter(|&&x| x == 0).count();
                        let sum: f64 = regs.iter().map(|&x| 2f64.powi(-(x as i32))).sum();
                        let alpha = match m {
                            16 => 0.673,
                            32 => 0.697,
                            64 => 0.709,
                            _ => 0.7213 / (1.0 + 1.079 / mf),
                        };
                        let e = alpha * mf * mf / sum;
                        let (regime, expect) = if v as f64 >= 0.62 * mf && v < m {
                            ("linear_counting", Some(mf * (mf / v as f64).ln()))
                        } else if v == 0 && e > 5.0 * mf * (1.0 + 1e-9) {
                            ("raw_estimate", Some(e))
                        } else {
                            ("table_regime", None)
                        };
                        if let Some(x) = expect {
                            if x < 1.8e19 && (c1 as f64 - x).abs() > 1.0 + 1e-9 * x {
                                return fail(
                                    format!("count!=reference:{}", regime),
                                    format!("count() = {} but the published estimator gives {:.3} in the {} regime (b = {}, {} zero registers, registers {:?})", c1, x, regime, b, v, shape),
                                );
                            }
                        }
                        Verdict::Pass(Info::new(true, hash_json(c)).class("register_vector").class(regime))
                    }
                    Err(p) => fail(format!("registers-{}", panic_sig(&p)), format!("count() on register contents {:?} (b = {}) panicked: {}", shape, b, p)),
                }
            }
        }
    }
}

fn estrategy() -> BoxedStrategy<ECase> {
    let shape = prop_oneof![
        3 => any::<u8>().prop_map(Shape::AllEqual),
        1 => prop_oneof![Just(0u8), Just(1), Just(46), Just(47), Just(60), Just(61), Just(64), Just(65), Just(255)].prop_map(Shape::AllEqual),
        2 => (any::<u16>(), any::<u8>()).prop_map(|(at, v)| Shape::OneHot { at, v }),
        3 => (any::<u64>(), prop_oneof![Just(3u8), Just(20), Just(61), Just(64), Just(255)]).prop_map(|(seed, max)| Shape::Random { seed, max }),
        2 => (any::<u64>(), prop_oneof![Just(3u8), Just(61), Just(255)]).prop_map(|(seed, max)| Shape::HalfZero { seed, max }),
        1 => prop::collection::vec(any::<u8>(), 0..40).prop_map(Shape::Explicit),
        4 => (any::<u64>(), prop_oneof![Just(1u8), Just(2), Just(3), Just(5), Just(10), Just(40), Just(46), Just(60)], 0u8..=25).prop_map(|(seed, lo, d)| Shape::NoZero { seed, lo, hi: lo + d }),
        3 => (any::<u64>(), 0u16..=380, prop_oneof![Just(1u8), Just(3), Just(20), Just(61), Just(255)]).prop_map(|(seed, permille, max)| Shape::Sparse { seed, permille, max }),
    ];
    prop_oneof![
        1 => (4usize..=18).prop_map(|b| ECase::Empty { b }),
        5 => (9usize..=18, prop::collection::vec(any::<u64>(), 1..=8), prop::bool::weighted(0.1)).prop_map(|(b, hashes, same_register)| {
            // make the registers distinct by construction (index = position * stride), keep the upper bits random
            let mask = (1u64 << b) - 1;
            let stride = (1u64 << b) / 8;
            let hashes = hashes.iter().enumerate().map(|(i, h)| (h & !mask) | ((i as u64 * stride + (h & (stride - 1))) & mask)).collect();
            ECase::Few { b, hashes, same_register }
        }),
        6 => (4usize..=18, shape).prop_map(|(b, shape)| ECase::Registers { b, shape }),
    ]
    .boxed()
}

pub fn checks() -> Vec<Box<dyn DynCheck>> {
    vec![Box::new(Cells), Box::new(Exact)]
}

pub fn run(ctx: &Ctx) {
    ctx.set_rule("cells (b, n, source): all 15 precisions; n on a grid of 71 (quick, step 0.1 m up to 6 m) / ~140 (thorough, step 0.05 m) cardinalities from 0.05 m to 50 m, dense around the estimator switch-overs; sources: independent random 64-bit hashes via add_hashed (all b), add(&i) of sequential integers (b <= 14) and add(\"key-i\") of strings (b <= 12, n <= 8m) under seeded SipHash. One trajectory per seed serves all checkpoints of its b; seeds per cell 40000 (b <= 7), 4000 (b 8..10), 1600 (11..14), 400 (15..18) for random hashes, a quarter of that for the real-hasher sources, x15 in thorough. Per cell, errors (reduced by 2 units for integer effects) normalised by n*relative_error(): RMS <= 1.25 (2.2 for 0.5m <= n <= 2m), |mean| <= 0.75 (<= 0.1 in the raw-estimate regime n >= 6m, where no empirical table enters), fraction beyond 3 <= 5 %, each at z = 6, flagged cells re-measured with 4x fresh seeds. exact: empty sketch counts 0; up to 8 adds with b >= 9 counted to within 1 of the distinct registers hit; count() returns for generated register vectors (all equal, one hot, random, half zero, explicit, no-zero, sparse; values up to 255) and equals the published estimator where no empirical table enters: alpha_m m^2 / sum 2^-M[j] when no register is zero and that exceeds 5m, m ln(m/V) when V >= 0.62 m registers are zero (to within 1 + 1e-9 relative). Non-trivial: every measured cell with n >= 1 (distinct = (b, n, source)); exact cases with distinct registers or a register vector. evaluations = trajectories + cells + exact cases.");
    ctx.assume("bounds: 'about relative_error()' = 1.25x, 'about twice' = 2.2x, 'close to zero' = 0.75x (0.1x for n >= 6m), 'a few percent' = 5 %; integer effects of 2 units are subtracted from every error");
    ctx.run_regressions(&[&Cells, &Exact]);
    run_cells(ctx);
    let t = ctx.tier;
    ctx.run_random(&Exact, t.pick(4_000, 60_000), estrategy);
}
