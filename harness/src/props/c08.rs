//! C08 — CountMinSketch meets its (epsilon, delta) point-query guarantee.
use crate::engine::known::Known;
use crate::engine::stat::*;
use crate::engine::*;
use crate::support::hashers::{GenBH, HKind};
use pdatastructs::countminsketch::CountMinSketch;
use serde::{Deserialize, Serialize};
use serde_json::json;

#[derive(Clone, Copy, Debug, PartialEq, Eq, Hash, Serialize, Deserialize)]
pub enum Shape {
    Heavy,
    Zipf,
    Uniform,
}

#[derive(Clone, Debug, Serialize, Deserialize)]
pub struct Cell {
    pub eps: f64,
    pub delta: f64,
    pub shape: Shape,
    pub seeds: u32,
    pub seed: u64,
}

impl Cell {
    pub fn sig(&self) -> String {
        format!("cell(eps={},delta={},stream={})", self.eps, self.delta, match self.shape {
            Shape::Heavy => "heavy",
            Shape::Zipf => "zipf",
            Shape::Uniform => "uniform",
        })
    }
}

const PROBES: u64 = 300;

/// stream as (element, weight) pairs plus the probe elements with their true weights
fn stream(c: &Cell, s: u64) -> (Vec<(u64, u64)>, Vec<(u64, u64)>, u64) {
    match c.shape {
        Shape::Heavy => {
            let h = ((1.0 / c.eps).ceil() as u64).saturating_sub(1);
            let l = PROBES;
            let wt = if h == 0 { 0 } else { (c.eps * l as f64 / (1.0 - c.eps * h as f64)).floor() as u64 + 1 };
            let mut st = vec![];
            for i in 0..h {
                st.push((mix(s, 1_000_000 + i), wt));
            }
            let mut probes = vec![];
            for j in 0..l {
                let e = mix(s, j);
                st.push((e, 1));
                probes.push((e, 1));
            }
            (st, probes, h * wt + l)
        }
        Shape::Zipf | Shape::Uniform => {
            let alphabet = if c.shape == Shape::Zipf { 1000u64 } else { 2000 };
            let n_items = 20_000u64;
            let mut g = SplitMix64(mix(s, 77));
            let mut counts = vec![0u64; alphabet as usize];
            for _ in 0..n_items {
                let r = if c.shape == Shape::Zipf { (((alphabet as f64) + 1.0).powf(g.f64()) - 1.0).floor() as u64 } else { g.below(alphabet) };
                counts[(r.min(alphabet - 1)) as usize] += 1;
            }
            let st: Vec<(u64, u64)> = counts.iter().enumerate().filter(|(_, &c)| c > 0).map(|(i, &c)| (mix(s, i as u64), c)).collect();
            let mut probes = vec![];
            for j in 0..PROBES {
                let i = g.below(alphabet);
                let _ = j;
                probes.push((mix(s, i), counts[i as usize]));
            }
            (st, probes, n_items)
        }
    }
}

/// per-seed fraction of probes whose overestimate exceeds eps*N
fn measure(c: &Cell, seed: u64, seeds: u32) -> (Vec<f64>, usize, usize) {
    let mut out = vec![];
    let (mut w, mut d) = (0, 0);
    for s in 0..seeds as u64 {
        let hs = mix(seed, s);
        let mut cms: CountMinSketch<u64, u64, GenBH> = CountMinSketch::with_point_query_properties_and_hasher(c.eps, c.delta, GenBH(HKind::Seeded(hs % (1 << 48))));
        w = cms.w();
        d = cms.d();
        let (st, probes, n) = stream(c, hs);
        for &(e, wt) in &st {
            cms.add_n(&e, &wt);
        }
        let thr = c.eps * n as f64;
        let mut bad = 0u64;
        for &(e, t) in &probes {
            let q = cms.query_point(&e);
            if (q - t) as f64 > thr {
                bad += 1;
            }
        }
        out.push(bad as f64 / probes.len() as f64);
    }
    (out, w, d)
}

pub struct C08 {
    pub known: Known,
}

impl Check for C08 {
    type Case = Cell;
    fn name(&self) -> &'static str {
        "cells"
    }
    fn eval(&self, c: &Cell) -> Verdict {
        let (x1, w, d) = measure(c, c.seed, c.seeds);
        let s1 = summarize(&x1);
        let expected_at_bound = c.delta * PROBES as f64 * c.seeds as f64;
        let powered = expected_at_bound >= 50.0;
        let shape: &'static str = match c.shape {
            Shape::Heavy => "heavy",
            Shape::Zipf => "zipf",
            Shape::Uniform => "uniform",
        };
        let sig = c.sig();
        let known = self.known.lookup("C08", &sig);
        let mut detail = json!({"cell": sig, "w": w, "d": d, "seeds": c.seeds, "fraction": s1.mean, "se": s1.se, "delta": c.delta, "ratio_to_delta": s1.mean / c.delta, "known_finding": known.is_some()});
        let inner = c.seeds as u64 * PROBES;
        if let Some(k) = known {
            // a recorded finding: always reported as such (with this run's measurement); it is a
            // violation only above the recorded ceiling
            let ceil = k.ceiling.unwrap_or(f64::INFINITY);
            let msg = format!("{} (w = {}, d = {}): measured fraction {:.5} +- {:.5} over {} seeds x {} probes, delta = {} (ratio {:.2}), recorded ceiling {}", sig, w, d, s1.mean, s1.se, c.seeds, PROBES, c.delta, s1.mean / c.delta, ceil);
            if s1.mean - Z * s1.se > ceil {
                let (x2, _, _) = measure(c, mix_str(c.seed, "confirm"), 4 * c.seeds);
                let s2 = summarize(&x2);
                if s2.mean - Z * s2.se > ceil {
                    return fail(format!("{}:above-recorded-ceiling", sig), format!("{} — confirmed {:.5} +- {:.5}: above the ceiling recorded for this known finding", msg, s2.mean, s2.se));
                }
            }
            return fail(sig, msg);
        }
        if !mean_above(&x1, c.delta, Z) {
            return Verdict::Pass(Info::new(powered, hash64(&sig)).class(shape).class_if(powered, "powered").detail(detail).inner(inner));
        }
        let (x2, _, _) = measure(c, mix_str(c.seed, "confirm"), 4 * c.seeds);
        let s2 = summarize(&x2);
        if !mean_above(&x2, c.delta, Z) {
            detail["screening_failed_confirmation_passed"] = json!(true);
            return Verdict::Pass(Info::new(powered, hash64(&sig)).class(shape).class("screening_failed_confirmation_passed").detail(detail).inner(5 * inner));
        }
        let msg = format!(
            "{} (w = {}, d = {}): the overestimate exceeds epsilon*N for a fraction {:.5} +- {:.5} of (seed, element) pairs ({} seeds x {} probes), allowed delta = {} (ratio {:.2}); first measurement {:.5}",
            sig, w, d, s2.mean, s2.se, 4 * c.seeds, PROBES, c.delta, s2.mean / c.delta, s1.mean
        );
        fail(sig, msg)
    }
}

pub const EPS: [f64; 6] = [0.5, 0.3, 0.1, 0.03, 0.01, 0.003];
pub const DELTA: [f64; 8] = [0.99, 0.9, 0.5, 0.3, 0.1, 0.03, 0.01, 0.003];

fn cells(tier: Tier, seed: u64) -> Vec<Cell> {
    let mut v = vec![];
    let seeds = tier.pick(3000u32, 20_000u32);
    for &eps in &EPS {
        for &delta in &DELTA {
            for shape in [Shape::Heavy, Shape::Zipf, Shape::Uniform] {
                let sd = if shape == Shape::Heavy { seeds } else { (seeds / 4).max(25) };
                let c = Cell { eps, delta, shape, seeds: sd, seed: 0 };
                let s = mix_str(seed, &c.sig());
                v.push(Cell { seed: s, ..c });
            }
        }
    }
    {
        // random cells from the region delta >= eps/2 (below 0.85*delta at design time)
        let mut g = SplitMix64(mix_str(seed, "c08-random"));
        for _ in 0..tier.pick(60, 1500) {
            let eps = 10f64.powf(-0.3 - 2.2 * g.f64());
            let delta = (eps / 2.0) + (0.98 - eps / 2.0) * g.f64().powi(2);
            let c = Cell { eps: (eps * 1e4).round() / 1e4, delta: (delta * 1e4).round() / 1e4, shape: Shape::Heavy, seeds: tier.pick(1000, 2000), seed: 0 };
            let s = mix_str(seed, &c.sig());
            v.push(Cell { seed: s, ..c });
        }
    }
    v
}

pub fn checks() -> Vec<Box<dyn DynCheck>> {
    vec![Box::new(C08 { known: Known::load() }), Box::new(super::extendpaths::DefaultCtors), Box::new(super::extendpaths::PqUsable)]
}

pub fn run(ctx: &Ctx) {
    ctx.set_rule("cells (epsilon, delta, stream shape): epsilon in {0.5,0.3,0.1,0.03,0.01,0.003} x delta in {0.99,0.9,0.5,0.3,0.1,0.03,0.01,0.003} x {heavy: ceil(1/eps)-1 elements weighted just above eps*N plus 300 light probe elements; zipf; uniform}; plus generated (epsilon, delta) with delta >= epsilon/2 (60 quick / 1500 thorough). Each cell: many seeded SipHash hashers x 300 queried elements; per-seed fraction of elements with query_point - true > epsilon*N; mean tested against delta at z = 6 with cluster-robust s.e. and a 4x confirmation with fresh seeds. Cells listed in known_findings.json are still measured and only alarm above their recorded ceiling. Non-trivial: cells with >= 50 expected exceedances at the bound. Distinct = cell. evaluations = cells + queried (seed, element) pairs. default_constructors: with_point_query_properties / with_params (no hasher argument) against the _and_hasher constructors given BuildHasherDefault<DefaultHasher>: same (w, d) and the same add/query_point results on up to 300 keys. constructor_domain: with_point_query_properties over epsilon in 1e-6 .. f64::MAX (incl. e/k, 1, e, 1e10) and delta in 5e-324 .. 1 - 2^-53: no panic, w >= 1 and d >= 1, add's return == query_point, true <= query_point <= N, one distinct element exact.");
    ctx.assume("fraction taken over SipHash seeds and queried elements; sketch built by with_point_query_properties_and_hasher");
    let c = C08 { known: Known::load() };
    ctx.run_regressions(&[&c, &super::extendpaths::PqUsable]);
    ctx.run_fixed(&c, cells(ctx.tier, ctx.seed));
    // with_point_query_properties (no hasher argument) sizes the sketch like the constructor measured above
    ctx.run_random(&super::extendpaths::DefaultCtors, ctx.tier.pick(3_000, 30_000), || super::extendpaths::default_ctor_strategy(&[3, 6]));
    // the whole documented domain of the constructor: epsilon > 0 (also >= 1, up to f64::MAX), 0 < delta < 1 (also next to 0 and 1)
    ctx.run_random(&super::extendpaths::PqUsable, ctx.tier.pick(20_000, 200_000), super::extendpaths::pq_strategy);
    ctx.put_extra("excluded_regions", json!(["thorough-tier random cells are drawn only from delta >= epsilon/2; the band delta < 0.135*epsilon (double-hashing floor) is visited only through the fixed grid cells recorded as known findings"]));
}
