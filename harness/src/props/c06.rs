//! C06 — merge/union is equivalent to having processed both streams.
use crate::engine::*;
use crate::props::c12::{diff, snapshot};
use crate::props::c13::layout;
use crate::support::filters::*;
use crate::support::hashers::{GenBH, HKind};
use pdatastructs::countminsketch::CountMinSketch;
use pdatastructs::hyperloglog::HyperLogLog;
use proptest::prelude::*;
use serde::{Deserialize, Serialize};
use std::collections::BTreeMap;

#[derive(Clone, Debug, Serialize, Deserialize)]
pub struct FCase {
    pub cfg: FCfg,
    pub hk: HKind,
    pub rngs: Vec<RngSpec>,
    pub universe: Vec<KeySpec>,
    pub fresh_seed: u64,
    pub a: Vec<u16>,
    pub b: Vec<u16>,
    pub c: Vec<u16>,
    /// cuckoo only: number of oldest successfully inserted elements deleted again from a / b before
    /// the union (the stream of that operand is then the surviving multiset)
    #[serde(default)]
    pub del_a: u8,
    #[serde(default)]
    pub del_b: u8,
}

fn build(cfg: &FCfg, hk: HKind, rng: &RngSpec, uni: &[u64], stream: &[u16], del: u8) -> (AnyFilter, Vec<u64>) {
    let mut f = AnyFilter::new(cfg, hk, rng);
    let mut ok = vec![];
    for &i in stream {
        let k = uni[idx(i, uni.len())];
        if f.insert(k).is_ok() {
            ok.push(k);
        }
    }
    if let FCfg::Cuckoo { .. } = cfg {
        let n = (del as usize).min(ok.len());
        let mut kept = vec![];
        for (j, &k) in ok.iter().enumerate() {
            if j < n && f.delete(k) == Some(true) {
                continue;
            }
            kept.push(k);
        }
        ok = kept;
    }
    (f, ok)
}

pub struct Filters;

impl Check for Filters {
    type Case = FCase;
    fn name(&self) -> &'static str {
        "filters"
    }
    fn eval(&self, c: &FCase) -> Verdict {
        let kind = c.cfg.kind();
        let uni: Vec<u64> = c.universe.iter().map(|k| k.materialise(&c.cfg)).collect();
        let mut probe = uni.clone();
        let mut g = stat::SplitMix64(c.fresh_seed);
        for _ in 0..100 {
            probe.push(g.next());
        }
        let rng = |i: usize| &c.rngs[i % c.rngs.len()];
        let (fa, sa) = build(&c.cfg, c.hk, rng(0), &uni, &c.a, c.del_a);
        let (fb, sb) = build(&c.cfg, c.hk, rng(1), &uni, &c.b, c.del_b);
        let (fc, _sc) = build(&c.cfg, c.hk, rng(2), &uni, &c.c, 0);
        let snap_b = snapshot(&fb, &probe, &uni, true);
        let mut ab = fa.deep_clone();
        let res = ab.union(&fb);
        let snap_b2 = snapshot(&fb, &probe, &uni, true);
        if snap_b != snap_b2 {
            return fail(format!("{}:union-modifies-other", kind), format!("b changed by a.union(&b): {}", diff(&snap_b, &snap_b2, &probe, &uni)));
        }
        let mut classes_hit: Vec<&'static str> = vec![kind];
        if res.is_err() {
            // handed to C12's oracle: a must be unchanged
            let s0 = snapshot(&fa, &probe, &uni, true);
            let s1 = snapshot(&ab, &probe, &uni, true);
            if s0 != s1 {
                return fail(format!("{}:failed-union-changes-state", kind), format!("union returned Err but a changed: {}", diff(&s0, &s1, &probe, &uni)));
            }
            if kind == "quotient" {
                // quotient union may only fail if the union of classes does not fit
                let mut all = uni.clone();
                all.sort_unstable();
                all.dedup();
                if let Ok(cls) = classes(&c.cfg, c.hk, &all) {
                    let mut set = std::collections::BTreeSet::new();
                    for k in sa.iter().chain(sb.iter()) {
                        set.insert(cls[all.binary_search(k).unwrap()]);
                    }
                    if set.len() <= c.cfg.capacity() {
                        return fail("quotient:union-fails-although-classes-fit", format!("union returned Err but a and b together hold only {} distinct classes (capacity {})", set.len(), c.cfg.capacity()));
                    }
                }
            }
            return Verdict::Pass(Info::new(false, hash_json(c)).class(kind).class("union_failed"));
        }
        // (2) reference: fresh structure that received A's then B's stream
        let mut reference = AnyFilter::new(&c.cfg, c.hk, rng(3));
        let mut ref_ok = true;
        for &k in sa.iter().chain(sb.iter()) {
            if reference.insert(k).is_err() {
                ref_ok = false;
                break;
            }
        }
        if kind == "cuckoo" {
            // class-multiset model
            let mut all = uni.clone();
            all.sort_unstable();
            all.dedup();
            let cls = match classes(&c.cfg, c.hk, &all) {
                Ok(x) => x,
                Err(e) => return fail("classes-not-equivalence", e),
            };
            let ncls = cls.iter().max().map(|m| m + 1).unwrap_or(0);
            let mut counts = vec![0u32; ncls];
            for k in sa.iter().chain(sb.iter()) {
                counts[cls[all.binary_search(k).unwrap()]] += 1;
            }
            if ab.len() != sa.len() + sb.len() {
                return fail("cuckoo:union-len", format!("len() after union = {} but |A| + |B| = {}", ab.len(), sa.len() + sb.len()));
            }
            for (j, &y) in all.iter().enumerate() {
                if ab.query(y) != (counts[cls[j]] > 0) {
                    return fail("cuckoo:union-query", format!("query({}) = {} after union but the class holds {} copies in A+B", y, ab.query(y), counts[cls[j]]));
                }
            }
            match crate::props::c14::delete_counts(&ab, &all, &cls, ncls) {
                Ok(dc) if dc == counts => {}
                Ok(dc) => return fail("cuckoo:union-copy-counts", format!("per-class deletable copies after union {:?} != copies in A plus copies in B {:?}", dc, counts)),
                Err(e) => return fail("cuckoo:union-copy-counts", e),
            }
        }
        if ref_ok || kind != "cuckoo" {
            if !ref_ok {
                return fail(format!("{}:reference-rejects-streams", kind), "a.union(&b) succeeded but a fresh filter fed A's then B's successful inserts reports Full".to_string());
            }
            let s_ab = snapshot(&ab, &probe, &uni, true);
            let s_ref = snapshot(&reference, &probe, &uni, true);
            if s_ab != s_ref {
                return fail(format!("{}:union!=sequential", kind), format!("a.union(&b) differs from a fresh filter fed both streams: {} (union -> reference)", diff(&s_ab, &s_ref, &probe, &uni)));
            }
            if kind != "cuckoo" {
                // one further identical insert on clones reacts identically
                for &k in uni.iter().take(8) {
                    let mut x = ab.deep_clone();
                    let mut y = reference.deep_clone();
                    let (rx, ry) = (x.insert(k), y.insert(k));
                    if rx != ry {
                        return fail(format!("{}:union!=sequential:insert-result", kind), format!("insert({}) returns {:?} on the union but {:?} on the sequential reference", k, rx, ry));
                    }
                }
            }
            classes_hit.push("sequential_reference_compared");
        }
        if kind != "cuckoo" {
            // (3) commutativity and associativity
            let mut ba = fb.deep_clone();
            if ba.union(&fa).is_err() {
                return fail(format!("{}:not-commutative", kind), "a.union(&b) succeeds but b.union(&a) fails".to_string());
            }
            let s_ab = snapshot(&ab, &probe, &uni, false);
            let s_ba = snapshot(&ba, &probe, &uni, false);
            if s_ab != s_ba {
                return fail(format!("{}:not-commutative", kind), format!("a∪b vs b∪a: {}", diff(&s_ab, &s_ba, &probe, &uni)));
            }
            let mut ab_c = ab.deep_clone();
            let r1 = ab_c.union(&fc);
            let mut bc = fb.deep_clone();
            let r2 = bc.union(&fc);
            let mut a_bc = fa.deep_clone();
            let r3 = if r2.is_ok() { a_bc.union(&bc) } else { Err(()) };
            if r1.is_ok() != r3.is_ok() && !(r1.is_err() && r2.is_ok() && r3.is_err()) {
                return fail(format!("{}:not-associative", kind), format!("(a∪b)∪c -> {:?} but b∪c -> {:?}, a∪(b∪c) -> {:?}", r1, r2, r3));
            }
            if r1.is_ok() && r3.is_ok() {
                let s1 = snapshot(&ab_c, &probe, &uni, false);
                let s3 = snapshot(&a_bc, &probe, &uni, false);
                if s1 != s3 {
                    return fail(format!("{}:not-associative", kind), format!("(a∪b)∪c vs a∪(b∪c): {}", diff(&s1, &s3, &probe, &uni)));
                }
                classes_hit.push("associativity_compared");
            }
            // (4) idempotence (set-like: all three non-cuckoo filters incl. HashSet)
            let mut aa = fa.deep_clone();
            let fa2 = fa.deep_clone();
            if aa.union(&fa2).is_err() {
                return fail(format!("{}:self-union-fails", kind), "x.union(&x.clone()) returned Err".to_string());
            }
            let s_a = snapshot(&fa, &probe, &uni, false);
            let s_aa = snapshot(&aa, &probe, &uni, false);
            if s_a != s_aa {
                return fail(format!("{}:not-idempotent", kind), format!("x∪x vs x: {}", diff(&s_a, &s_aa, &probe, &uni)));
            }
            let mut abb = ab.deep_clone();
            if abb.union(&fb).is_err() {
                return fail(format!("{}:second-union-fails", kind), "(x∪y)∪y returned Err".to_string());
            }
            let s_abb = snapshot(&abb, &probe, &uni, false);
            if s_ab != s_abb {
                return fail(format!("{}:not-idempotent", kind), format!("(x∪y)∪y vs x∪y: {}", diff(&s_ab, &s_abb, &probe, &uni)));
            }
        }
        // classification
        let both = !sa.is_empty() && !sb.is_empty();
        let mut special = true;
        if kind == "quotient" {
            if let (FCfg::Quotient { q, r }, HKind::Ident) = (c.cfg, c.hk) {
                let mut fps: Vec<u64> = sb.iter().map(|k| if q + r >= 64 { *k } else { k & ((1u64 << (q + r)) - 1) }).collect();
                fps.sort_unstable();
                fps.dedup();
                let quots: Vec<usize> = fps.iter().map(|fp| (fp >> r) as usize).collect();
                let (shifted, wraps) = layout(q, &quots);
                special = shifted || wraps;
                if shifted {
                    classes_hit.push("other_has_shifted_run");
                }
                if wraps {
                    classes_hit.push("other_wraps");
                }
            } else {
                special = fb.len() >= 3;
            }
        }
        if kind == "cuckoo" {
            let FCfg::Cuckoo { bucketsize, .. } = c.cfg else { unreachable!() };
            let mut per: BTreeMap<u64, usize> = BTreeMap::new();
            for k in &sb {
                *per.entry(*k).or_insert(0) += 1;
            }
            special = fb.drawn() > 0 || per.values().any(|&v| v > bucketsize);
            if special {
                classes_hit.push("other_uses_alternate_bucket");
            }
            if c.del_b > 0 && !sb.is_empty() {
                classes_hit.push("other_has_deletes");
                special = true;
            }
        }
        let mut info = Info::new(both && special, hash_json(c)).class_if(both, "both_nonempty");
        for cl in classes_hit {
            info.classes.push(cl);
        }
        Verdict::Pass(info)
    }
}

// ---------------------------------------------------------------- sketches

#[derive(Clone, Debug, Serialize, Deserialize)]
pub enum SCfg {
    Cms { w: usize, d: usize },
    Hll { b: usize },
}

#[derive(Clone, Debug, Serialize, Deserialize)]
pub struct SCase {
    pub cfg: SCfg,
    pub hk: HKind,
    pub universe: Vec<KeySpec>,
    pub fresh_seed: u64,
    /// (key index, weight)
    pub a: Vec<(u16, u8)>,
    pub b: Vec<(u16, u8)>,
    pub c: Vec<(u16, u8)>,
}

type Cms = CountMinSketch<u64, u64, GenBH>;
type Hll = HyperLogLog<u64, GenBH>;

fn cms_obs(s: &Cms, probe: &[u64]) -> (Vec<u64>, bool) {
    (probe.iter().map(|k| s.query_point(k)).collect(), s.is_empty())
}

pub struct Sketches;

impl Check for Sketches {
    type Case = SCase;
    fn name(&self) -> &'static str {
        "sketches"
    }
    fn eval(&self, c: &SCase) -> Verdict {
        let dummy = FCfg::Set;
        let uni: Vec<u64> = c.universe.iter().map(|k| k.materialise(&dummy)).collect();
        let mut probe = uni.clone();
        let mut g = stat::SplitMix64(c.fresh_seed);
        for _ in 0..50 {
            probe.push(g.next());
        }
        let key = |i: u16| uni[idx(i, uni.len())];
        let bh = GenBH(c.hk);
        let both = !c.a.is_empty() && !c.b.is_empty();
        match c.cfg {
            SCfg::Cms { w, d } => {
                let mk = |streams: &[&Vec<(u16, u8)>]| {
                    let mut s: Cms = CountMinSketch::with_params_and_hasher(w, d, bh);
                    for st in streams {
                        for &(i, wt) in st.iter() {
                            if wt <= 1 {
                                s.add(&key(i));
                            } else {
                                s.add_n(&key(i), &(wt as u64));
                            }
                        }
                    }
                    s
                };
                let (sa, sb, sc) = (mk(&[&c.a]), mk(&[&c.b]), mk(&[&c.c]));
                let ob = cms_obs(&sb, &probe);
                let mut ab = sa.clone();
                ab.merge(&sb);
                if cms_obs(&sb, &probe) != ob {
                    return fail("cms:merge-modifies-other", "b changed by a.merge(&b)".to_string());
                }
                let reference = mk(&[&c.a, &c.b]);
                let (o1, o2) = (cms_obs(&ab, &probe), cms_obs(&reference, &probe));
                if o1 != o2 {
                    let j = (0..probe.len()).find(|&j| o1.0[j] != o2.0[j]);
                    return fail("cms:merge!=sequential", format!("after merge query_point({:?}) = {:?}, sequential reference gives {:?}; is_empty {} vs {}", j.map(|j| probe[j]), j.map(|j| o1.0[j]), j.map(|j| o2.0[j]), o1.1, o2.1));
                }
                for &k in uni.iter().take(6) {
                    let (mut x, mut y) = (ab.clone(), reference.clone());
                    if x.add(&k) != y.add(&k) {
                        return fail("cms:merge!=sequential:add-result", format!("add({}) returns different values on merged and sequential sketches", k));
                    }
                }
                let mut ba = sb.clone();
                ba.merge(&sa);
                if cms_obs(&ba, &probe) != o1 {
                    return fail("cms:not-commutative", "a+b != b+a".to_string());
                }
                let mut ab_c = ab.clone();
                ab_c.merge(&sc);
                let mut bc = sb.clone();
                bc.merge(&sc);
                let mut a_bc = sa.clone();
                a_bc.merge(&bc);
                if cms_obs(&ab_c, &probe) != cms_obs(&a_bc, &probe) {
                    return fail("cms:not-associative", "(a+b)+c != a+(b+c)".to_string());
                }
                Verdict::Pass(Info::new(both, hash_json(c)).class("cms").class_if(both, "both_nonempty").class_if(w != d, "w!=d"))
            }
            SCfg::Hll { b } => {
                let mk = |streams: &[&Vec<(u16, u8)>]| {
                    let mut s: Hll = HyperLogLog::with_hash(b, bh);
                    for st in streams {
                        for &(i, _) in st.iter() {
                            s.add(&key(i));
                        }
                    }
                    s
                };
                let (sa, sb, sc) = (mk(&[&c.a]), mk(&[&c.b]), mk(&[&c.c]));
                let rb = sb.registers().to_vec();
                let mut ab = sa.clone();
                ab.merge(&sb);
                if sb.registers() != &rb[..] {
                    return fail("hll:merge-modifies-other", "b changed by a.merge(&b)".to_string());
                }
                let reference = mk(&[&c.a, &c.b]);
                if ab.registers() != reference.registers() || ab != reference || ab.count() != reference.count() || ab.is_empty() != reference.is_empty() {
                    return fail("hll:merge!=sequential", format!("merged sketch differs from the one fed both streams (count {} vs {})", ab.count(), reference.count()));
                }
                let mut ba = sb.clone();
                ba.merge(&sa);
                if ba != ab {
                    return fail("hll:not-commutative", "a∪b != b∪a".to_string());
                }
                let mut ab_c = ab.clone();
                ab_c.merge(&sc);
                let mut bc = sb.clone();
                bc.merge(&sc);
                let mut a_bc = sa.clone();
                a_bc.merge(&bc);
                if ab_c != a_bc {
                    return fail("hll:not-associative", "(a∪b)∪c != a∪(b∪c)".to_string());
                }
                let mut aa = sa.clone();
                aa.merge(&sa.clone());
                if aa != sa {
                    return fail("hll:not-idempotent", "x∪x != x".to_string());
                }
                let mut abb = ab.clone();
                abb.merge(&sb);
                if abb != ab {
                    return fail("hll:not-idempotent", "(x∪y)∪y != x∪y".to_string());
                }
                Verdict::Pass(Info::new(both, hash_json(c)).class("hll").class_if(both, "both_nonempty"))
            }
        }
    }
}

fn stream(maxlen: usize) -> impl Strategy<Value = Vec<u16>> {
    prop_oneof![
        1 => Just(vec![]),
        6 => prop::collection::vec(any::<u16>(), 0..maxlen),
        2 => prop::collection::vec((0u16..8).prop_map(|i| i * 997), 0..maxlen),
    ]
}

fn fstrategy(tier: Tier) -> BoxedStrategy<FCase> {
    let maxlen = tier.pick(40usize, 120usize);
    (
        prop_oneof![2 => bloom_cfg(), 3 => cuckoo_cfg_small(), 2 => cuckoo_cfg(), 3 => quotient_cfg_small(), 2 => quotient_cfg(), 1 => Just(FCfg::Set)]
            .prop_flat_map(|cfg| (Just(cfg), hkind_for(&cfg))),
        prop::collection::vec(rng_spec(), 4),
        prop::collection::vec(key_spec(), 1..40),
        any::<u64>(),
        stream(maxlen),
        stream(maxlen),
        stream(maxlen),
        0u8..10,
        (prop_oneof![2 => Just(0u8), 1 => 0u8..10], prop_oneof![1 => Just(0u8), 1 => 0u8..24]),
    )
        .prop_map(|((cfg, hk), rngs, universe, fresh_seed, a, b, c, overlap, (del_a, del_b))| {
            // generated overlap: equal, nested, as generated
            let (a, b) = match overlap {
                0 => (a.clone(), a),
                1 => {
                    let mut bb = a.clone();
                    bb.extend(b);
                    (a, bb)
                }
                _ => (a, b),
            };
            FCase { cfg, hk, rngs, universe, fresh_seed, a, b, c, del_a, del_b }
        })
        .boxed()
}

fn wstream(maxlen: usize) -> impl Strategy<Value = Vec<(u16, u8)>> {
    prop::collection::vec((any::<u16>(), prop_oneof![3 => Just(1u8), 1 => 0u8..=255]), 0..maxlen)
}

fn sstrategy(tier: Tier) -> BoxedStrategy<SCase> {
    let maxlen = tier.pick(60usize, 200usize);
    (
        prop_oneof![
            (prop_oneof![6 => 1usize..=32, 1 => 1usize..=600], prop_oneof![6 => 1usize..=6, 1 => 1usize..=20]).prop_map(|(w, d)| SCfg::Cms { w, d }),
            prop_oneof![6 => 4usize..=12, 1 => 4usize..=18].prop_map(|b| SCfg::Hll { b }),
        ],
        hkind_any(),
        prop::collection::vec(key_spec(), 1..40),
        any::<u64>(),
        wstream(maxlen),
        wstream(maxlen),
        wstream(maxlen),
    )
        .prop_map(|(cfg, hk, universe, fresh_seed, a, b, c)| SCase { cfg, hk, universe, fresh_seed, a, b, c })
        .boxed()
}

/// One replayable pair for the exhaustive quotient-filter union check: bit masks over the
/// 2^(q+r) fingerprint values.
#[derive(Clone, Debug, Serialize, Deserialize)]
pub struct QPair {
    pub q: usize,
    pub r: usize,
    pub a: u32,
    pub b: u32,
}

pub struct QUnion;

impl Check for QUnion {
    type Case = QPair;
    fn name(&self) -> &'static str {
        "quotient_union_exhaustive"
    }
    fn eval(&self, c: &QPair) -> Verdict {
        use pdatastructs::filters::quotientfilter::QuotientFilter;
        use pdatastructs::filters::Filter;
        let nfp = 1u32 << (c.q + c.r);
        let cap = 1usize << c.q;
        let bh = GenBH(HKind::Ident);
        let trash = |fp: u32| (fp as u64) | (0xA5u64 << (c.q + c.r));
        let mut fa: QuotientFilter<u64, GenBH> = QuotientFilter::with_params_and_hash(c.q, c.r, bh);
        let mut fb: QuotientFilter<u64, GenBH> = QuotientFilter::with_params_and_hash(c.q, c.r, bh);
        for fp in 0..nfp {
            if c.a & (1 << fp) != 0 && fa.insert(&(fp as u64)).is_err() {
                return fail("harness-precondition", "operand a does not fit");
            }
        }
        for fp in (0..nfp).rev() {
            if c.b & (1 << fp) != 0 && fb.insert(&trash(fp)).is_err() {
                return fail("harness-precondition", "operand b does not fit");
            }
        }
        let union_mask = c.a | c.b;
        let fits = (union_mask.count_ones() as usize) <= cap;
        let res = fa.union(&fb);
        // b never changes
        for fp in 0..nfp {
            if fb.query(&(fp as u64)) != (c.b & (1 << fp) != 0) || fb.len() != c.b.count_ones() as usize {
                return fail("quotient:union-modifies-other", format!("b changed by a.union(&b) (q={}, r={}, a={:#b}, b={:#b})", c.q, c.r, c.a, c.b));
            }
        }
        let want = if res.is_ok() { union_mask } else { c.a };
        if res.is_ok() != fits {
            return fail(
                if fits { "quotient:union-fails-although-classes-fit" } else { "quotient:union-succeeds-beyond-capacity" },
                format!("a.union(&b) -> {:?} but |a ∪ b| = {} and capacity is {} (q={}, r={}, a={:#b}, b={:#b})", res.is_ok(), union_mask.count_ones(), cap, c.q, c.r, c.a, c.b),
            );
        }
        if fa.len() != want.count_ones() as usize {
            return fail(if res.is_ok() { "quotient:union-len" } else { "quotient:failed-union-changes-len" }, format!("len() = {} after union -> {:?}, expected {} (q={}, r={}, a={:#b}, b={:#b})", fa.len(), res.is_ok(), want.count_ones(), c.q, c.r, c.a, c.b));
        }
        for fp in 0..nfp {
            for key in [fp as u64, trash(fp)] {
                if fa.query(&key) != (want & (1 << fp) != 0) {
                    return fail(
                        if res.is_ok() { "quotient:union!=set-union" } else { "quotient:failed-union-changes-query" },
                        format!("after a.union(&b) -> {:?}: query(fingerprint {}) = {} (q={}, r={}, a={:#b}, b={:#b})", res.is_ok(), fp, fa.query(&key), c.q, c.r, c.a, c.b),
                    );
                }
            }
        }
        Verdict::Pass(Info::new(c.a != 0 && c.b != 0, hash64(&(c.q, c.r, c.a, c.b))))
    }
}

fn exhaustive_quotient_unions(ctx: &Ctx, q: usize, r: usize) {
    let nfp = 1u32 << (q + r);
    let cap = 1u32 << q;
    let subsets: Vec<u32> = (0u32..(1u32 << nfp)).filter(|m| m.count_ones() <= cap).collect();
    let n = subsets.len();
    ctx.run_indexed("quotient_union_exhaustive", n, |i, acc| {
        for &b in &subsets {
            let case = QPair { q, r, a: subsets[i], b };
            match QUnion.eval(&case) {
                Verdict::Fail { sig, msg } => return Some((serde_json::to_value(&case).unwrap(), sig, msg)),
                Verdict::Pass(info) => acc.pass_enum(info.nontrivial, || serde_json::to_value(&case).unwrap()),
            }
        }
        None
    });
    ctx.mark_exhaustive(
        "quotient_union_exhaustive",
        format!("every ordered pair of class subsets that fit a quotient filter (q={}, r={}): {} x {} pairs; union succeeds iff the union fits, equals the set union, leaves the other operand and, on Err, itself unchanged", q, r, n, n),
    );
}

pub fn checks() -> Vec<Box<dyn DynCheck>> {
    vec![Box::new(Filters), Box::new(Sketches), Box::new(QUnion), Box::new(super::giant::Giant)]
}

pub fn run(ctx: &Ctx) {
    ctx.set_rule("exhaustive: every ordered pair of fitting class subsets of the quotient filters (q,r) = (2,1), (1,2) (thorough: (2,2), (3,1)) under the Ident hasher: union Ok iff the union fits, result = set union, other operand and (on Err) self unchanged. generated: structure in {Bloom, Quotient, Cuckoo, HashSet, CMS, HLL} x configuration x hasher family x streams A, B, C over one colliding universe with generated overlap (as generated, equal, nested, empty, near capacity). Oracle on a successful merge: B unchanged; A∪B observationally equal (query/query_point over universe + fresh keys, len, is_empty, count, registers, result of one further insert/add on clones) to a fresh structure fed A then B (cuckoo: class-multiset model with per-class copy counts, plus the sequential reference whenever it accepted everything); commutativity, associativity (Bloom, Quotient, HashSet, CMS, HLL); idempotence (Bloom, Quotient, HashSet, HLL). A failed union is checked against C12's unchanged-state oracle and, for the quotient filter, must be justified by the class count. For the cuckoo filter the operands may have had their oldest elements deleted again before the union (holes in buckets); their stream is then the surviving multiset. Non-trivial: both streams non-empty, merge succeeded, and for quotient the other operand has a shifted run or wraps (Ident) / for cuckoo the other operand used an alternate bucket (drew RNG words or holds > bucketsize copies of one key). Distinct = hash of the case. giant_tables: union of two Bloom filters of 2^32+15 bits and merge of two u8 sketches of width 2^31+3: every element of either operand present / not underestimated, answers equal to a structure that saw both streams, operand unchanged; unions of quotient filters whose operand holds one cluster of a 260..700-class run followed by 270..600 occupied buckets (hundreds of pending runs), also wrapping the ring end.");
    ctx.run_regressions(&[&Filters, &Sketches, &QUnion]);
    let t = ctx.tier;
    exhaustive_quotient_unions(ctx, 2, 1);
    exhaustive_quotient_unions(ctx, 1, 2);
    if t == Tier::Thorough {
        exhaustive_quotient_unions(ctx, 2, 2);
        exhaustive_quotient_unions(ctx, 3, 1);
    }
    ctx.run_random(&Filters, t.pick(300_000, 4_000_000), move || fstrategy(t));
    ctx.run_random(&Sketches, t.pick(150_000, 2_000_000), move || sstrategy(t));
    // union / merge of structures beyond 2^31 bits / counters
    ctx.run_fixed(&super::giant::Giant, super::giant::union_cases(ctx.seed));
    ctx.require_class("filters", "both_nonempty", 0.3);
    ctx.require_class("filters", "union_failed", 0.05);
    ctx.require_class("filters", "other_uses_alternate_bucket", 0.02);
    ctx.require_class("filters", "other_has_shifted_run", 0.02);
}
