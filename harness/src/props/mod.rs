use crate::engine::{Ctx, DynCheck};

pub mod c17;

pub const ALL: &[&str] = &["C17"];

pub fn run(ctx: &Ctx) -> bool {
    match ctx.prop.as_str() {
        "C17" => c17::run(ctx),
        _ => return false,
    }
    true
}

pub fn checks(id: &str) -> Vec<Box<dyn DynCheck>> {
    match id {
        "C17" => c17::checks(),
        _ => vec![],
    }
}
