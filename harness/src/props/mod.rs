use crate::engine::{Ctx, DynCheck};

pub mod c01;
pub mod c02;
pub mod c03;
pub mod c04;
pub mod c05;
pub mod c06;
pub mod c07;
pub mod c08;
pub mod c09;
pub mod c10;
pub mod c11;
pub mod c12;
pub mod c13;
pub mod c14;
pub mod c15;
pub mod c16;
pub mod c17;
pub mod c18;
pub mod c19;
pub mod c20;
pub mod extendpaths;
pub mod fuzzdecode;
pub mod giant;

pub const ALL: &[&str] = &["C01", "C02", "C03", "C04", "C05", "C06", "C07", "C08", "C09", "C10", "C11", "C12", "C13", "C14", "C15", "C16", "C17", "C18", "C19", "C20"];

pub fn run(ctx: &Ctx) -> bool {
    match ctx.prop.as_str() {
        "C01" => c01::run(ctx),
        "C02" => c02::run(ctx),
        "C03" => c03::run(ctx),
        "C04" => c04::run(ctx),
        "C05" => c05::run(ctx),
        "C06" => c06::run(ctx),
        "C07" => c07::run(ctx),
        "C08" => c08::run(ctx),
        "C09" => c09::run(ctx),
        "C10" => c10::run(ctx),
        "C11" => c11::run(ctx),
        "C12" => c12::run(ctx),
        "C13" => c13::run(ctx),
        "C14" => c14::run(ctx),
        "C15" => c15::run(ctx),
        "C16" => c16::run(ctx),
        "C17" => c17::run(ctx),
        "C18" => c18::run(ctx),
        "C19" => c19::run(ctx),
        "C20" => c20::run(ctx),
        _ => return false,
    }
    true
}

pub fn checks(id: &str) -> Vec<Box<dyn DynCheck>> {
    match id {
        "C01" => c01::checks(),
        "C02" => c02::checks(),
        "C03" => c03::checks(),
        "C04" => c04::checks(),
        "C05" => c05::checks(),
        "C06" => c06::checks(),
        "C07" => c07::checks(),
        "C08" => c08::checks(),
        "C09" => c09::checks(),
        "C10" => c10::checks(),
        "C11" => c11::checks(),
        "C12" => c12::checks(),
        "C13" => c13::checks(),
        "C14" => c14::checks(),
        "C15" => c15::checks(),
        "C16" => c16::checks(),
        "C17" => c17::checks(),
        "C18" => c18::checks(),
        "C19" => c19::checks(),
        "C20" => c20::checks(),
        _ => vec![],
    }
}
