//! C20 — HyperLogLog survives serialisation and rejects invalid serialised state.
use crate::engine::*;
use crate::props::c17::{hspec, HSpec};
use pdatastructs::hyperloglog::HyperLogLog;
use proptest::prelude::*;
use serde::{Deserialize, Serialize};
use std::collections::hash_map::DefaultHasher;
use std::hash::{BuildHasher, Hasher};

/// Serialisable seeded SipHash BuildHasher.
#[derive(Clone, Debug, PartialEq, Eq, Serialize, Deserialize)]
pub struct SerBH {
    pub seed: u64,
}

impl BuildHasher for SerBH {
    type Hasher = DefaultHasher;
    fn build_hasher(&self) -> DefaultHasher {
        let mut h = DefaultHasher::default();
        h.write_u64(self.seed);
        h
    }
}

pub type Hll = HyperLogLog<u64, SerBH>;

#[derive(Clone, Debug, Serialize, Deserialize)]
pub struct RtCase {
    pub b: u8,
    pub seed: u64,
    pub hashes: Vec<HSpec>,
    pub keys: Vec<u64>,
    pub more: Vec<HSpec>,
    pub third: Vec<HSpec>,
    /// registers overwritten through with_registers_and_hash: (position, value) with any u8 value
    #[serde(default)]
    pub set_registers: Vec<(u16, u8)>,
}

pub struct RoundTrip;

impl Check for RoundTrip {
    type Case = RtCase;
    fn name(&self) -> &'static str {
        "round_trip"
    }
    fn eval(&self, c: &RtCase) -> Verdict {
        let b = c.b as usize;
        let bh = SerBH { seed: c.seed };
        let mut h: Hll = HyperLogLog::with_hash(b, bh.clone());
        for s in &c.hashes {
            h.add_hashed(s.materialise(b));
        }
        for k in &c.keys {
            h.add(k);
        }
        if !c.set_registers.is_empty() {
            // "any HyperLogLog": also register contents that only with_registers_and_hash can produce
            let mut regs = h.registers().to_vec();
            for &(pos, v) in &c.set_registers {
                let i = idx(pos, regs.len());
                regs[i] = v;
            }
            h = HyperLogLog::with_registers_and_hash(b, regs, bh.clone());
        }
        let txt = match serde_json::to_string(&h) {
            Ok(t) => t,
            Err(e) => return fail("serialize-fails", format!("to_string failed: {}", e)),
        };
        let val = match serde_json::to_value(&h) {
            Ok(t) => t,
            Err(e) => return fail("serialize-fails", format!("to_value failed: {}", e)),
        };
        let from_txt: Result<Hll, _> = catch(|| serde_json::from_str::<Hll>(&txt)).unwrap_or_else(|p| panic!("{}", p));
        let mut d1 = match from_txt {
            Ok(d) => d,
            Err(e) => return fail("roundtrip-rejected", format!("deserialising the serialised sketch fails: {} (b={})", e, b)),
        };
        let mut d2: Hll = match serde_json::from_value(val) {
            Ok(d) => d,
            Err(e) => return fail("roundtrip-rejected", format!("deserialising the serialised Value fails: {} (b={})", e, b)),
        };
        for (name, d) in [("string", &d1), ("Value", &d2)] {
            if *d != h {
                return fail("roundtrip-not-equal", format!("sketch deserialised from {} != original (b={})", name, b));
            }
            if d.b() != h.b() || d.registers() != h.registers() || d.buildhasher() != h.buildhasher() || d.m() != h.m() {
                return fail("roundtrip-fields-differ", format!("b/registers/hasher differ after the {} round trip", name));
            }
            if d.count() != h.count() || d.is_empty() != h.is_empty() || d.relative_error() != h.relative_error() {
                return fail("roundtrip-count-differs", format!("count() {} vs {}", d.count(), h.count()));
            }
        }
        // same reaction to further adds and a merge
        let mut third: Hll = HyperLogLog::with_hash(b, bh);
        for s in &c.third {
            third.add_hashed(s.materialise(b));
        }
        for s in &c.more {
            let x = s.materialise(b);
            h.add_hashed(x);
            d1.add_hashed(x);
            d2.add_hashed(x);
        }
        for k in c.keys.iter().map(|k| k.wrapping_mul(31)) {
            h.add(&k);
            d1.add(&k);
            d2.add(&k);
        }
        h.merge(&third);
        d1.merge(&third);
        d2.merge(&third);
        if d1 != h || d2 != h || d1.count() != h.count() {
            return fail("roundtrip-diverges-after-adds", "after identical adds and a merge the deserialised sketch differs from the original".to_string());
        }
        let nonempty = !c.hashes.is_empty() || !c.keys.is_empty();
        Verdict::Pass(Info::new(nonempty, hash_json(c)).class_if(nonempty, "nonempty_registers").class_if(b >= 14, "large_b").class_if(!c.set_registers.is_empty(), "arbitrary_register_values"))
    }
}

// ---------------------------------------------------------------- documents

#[derive(Clone, Debug, Serialize, Deserialize)]
pub enum BSpec {
    Int(i64),
    Big(u64),
    Float(f64),
    Str(String),
    Null,
}

#[derive(Clone, Debug, Serialize, Deserialize)]
pub enum LenSpec {
    /// exactly this many
    Abs(u32),
    /// 2^(b + shift) + off where b is the integer value of the b field (clamped to 0..=19)
    Rel { shift: i8, off: i8 },
    /// mul * 2^b / div (multiples and fractions of the right length)
    Mul { mul: u8, div: u8 },
}

#[derive(Clone, Debug, Serialize, Deserialize)]
pub struct DocCase {
    pub b: BSpec,
    pub len: LenSpec,
    pub fill: u16,
    pub special_at: Vec<(u16, i64)>,
    /// which of the three fields to emit, in which order (indices 0=registers 1=b 2=buildhasher), duplicates allowed
    pub fields: Vec<u8>,
    pub unknown_field: bool,
    pub hasher_doc: u8,
    /// 0 = JSON object (the documented shape); 1 = JSON array of the field values in `fields` order (what a derive-style
    /// visit_seq would accept); 2 = array with the registers array flattened into it; 3 = object wrapped in a one-element array;
    /// 4 = object whose field values are each wrapped in a one-element array
    #[serde(default)]
    pub shape: u8,
}

fn render(c: &DocCase) -> String {
    let b_txt = match &c.b {
        BSpec::Int(i) => i.to_string(),
        BSpec::Big(u) => u.to_string(),
        BSpec::Float(f) => format!("{}", f),
        BSpec::Str(s) => format!("{:?}", s),
        BSpec::Null => "null".to_string(),
    };
    let b_int: i64 = match &c.b {
        BSpec::Int(i) => *i,
        BSpec::Big(u) => (*u).min(64) as i64,
        BSpec::Float(f) => *f as i64,
        BSpec::Str(s) => s.parse().unwrap_or(4),
        BSpec::Null => 4,
    };
    let bb = b_int.clamp(0, 19);
    let n: i64 = match c.len {
        LenSpec::Abs(n) => n as i64,
        LenSpec::Rel { shift, off } => {
            let e = (bb + shift as i64).clamp(0, 19);
            (1i64 << e) + off as i64
        }
        LenSpec::Mul { mul, div } => (1i64 << bb.min(14)) * mul as i64 / (div.max(1) as i64),
    }
    .clamp(0, 1 << 19);
    let mut regs: Vec<String> = Vec::with_capacity(n as usize);
    let fill = c.fill.to_string();
    for _ in 0..n {
        regs.push(fill.clone());
    }
    for &(i, v) in &c.special_at {
        if n > 0 {
            let j = idx(i, n as usize);
            regs[j] = v.to_string();
        }
    }
    let reg_txt = format!("[{}]", regs.join(","));
    let hasher_txt = match c.hasher_doc % 8 {
        0..=5 => "{\"seed\":7}".to_string(),
        6 => "{}".to_string(),
        _ => "7".to_string(),
    };
    let mut parts: Vec<String> = vec![];
    let shape = c.shape % 5;
    for f in &c.fields {
        let (key, val) = match f % 3 {
            0 => ("registers", if shape == 2 { regs.join(",") } else { reg_txt.clone() }),
            1 => ("b", b_txt.clone()),
            _ => ("buildhasher", hasher_txt.clone()),
        };
        match shape {
            1 | 2 => {
                if !val.is_empty() {
                    parts.push(val)
                }
            }
            4 => parts.push(format!("\"{}\":[{}]", key, val)),
            _ => parts.push(format!("\"{}\":{}", key, val)),
        }
    }
    if c.unknown_field {
        parts.push(if shape == 1 || shape == 2 { "1".to_string() } else { "\"extra\":1".to_string() });
    }
    match shape {
        1 | 2 => format!("[{}]", parts.join(",")),
        3 => format!("[{{{}}}]", parts.join(",")),
        _ => format!("{{{}}}", parts.join(",")),
    }
}

/// The invariant oracle shared by documents and byte mutations.
pub fn check_bytes(bytes: &[u8]) -> Result<(bool, bool), (String, String)> {
    let parsed_json = serde_json::from_slice::<serde_json::Value>(bytes).is_ok();
    let r = match catch(|| serde_json::from_slice::<Hll>(bytes)) {
        Ok(r) => r,
        Err(p) => return Err((format!("deserialize-{}", panic_sig(&p)), format!("deserialisation panicked: {}", p))),
    };
    match r {
        Err(_) => Ok((parsed_json, false)),
        Ok(mut h) => {
            let b = h.b();
            if !(4..=18).contains(&b) {
                // do not touch it further: report the broken invariant (and show that use panics)
                let p = catch(|| {
                    let mut g = h.clone();
                    g.add_hashed(u64::MAX);
                    g.add_hashed(0);
                    g.count()
                });
                return Err((
                    "accepts-b-out-of-range".into(),
                    format!("deserialisation accepted b = {} (constructor requires 4..=18); registers.len() = {}; use afterwards: {:?}", b, h.registers().len(), p.err()),
                ));
            }
            if h.registers().len() != 1usize << b || h.m() != 1usize << b {
                let p = catch(|| {
                    let mut g = h.clone();
                    g.add_hashed(u64::MAX);
                    g.add_hashed(0);
                    g.count()
                });
                return Err((
                    "accepts-wrong-register-count".into(),
                    format!("deserialisation accepted b = {} with {} registers (constructor requires {}); use afterwards: {:?}", b, h.registers().len(), 1usize << b, p.err()),
                ));
            }
            let used = catch(|| {
                h.add_hashed(u64::MAX);
                h.add_hashed(0);
                h.add_hashed(0x0123_4567_89ab_cdef);
                h.add(&42u64);
                let c1 = h.count();
                let fresh: Hll = HyperLogLog::with_hash(b, h.buildhasher().clone());
                h.merge(&fresh);
                let mut f2: Hll = HyperLogLog::with_hash(b, h.buildhasher().clone());
                f2.merge(&h);
                (c1, f2.count(), h.is_empty())
            });
            match used {
                Ok(_) => Ok((parsed_json, true)),
                Err(p) => Err((format!("accepted-sketch-{}", panic_sig(&p)), format!("a successfully deserialised sketch (b = {}) panics on use: {}", b, p))),
            }
        }
    }
}

pub struct Docs;

impl Check for Docs {
    type Case = DocCase;
    fn name(&self) -> &'static str {
        "documents"
    }
    fn eval(&self, c: &DocCase) -> Verdict {
        let doc = render(c);
        match check_bytes(doc.as_bytes()) {
            Err((sig, msg)) => {
                let shown: String = doc.chars().take(200).collect();
                fail(sig, format!("{} — document: {}{}", msg, shown, if doc.len() > 200 { "…" } else { "" }))
            }
            Ok((is_json, accepted)) => {
                let all3 = [0u8, 1, 2].iter().all(|f| c.fields.iter().any(|g| g % 3 == *f));
                Verdict::Pass(
                    Info::new(is_json && all3, hash_json(c))
                        .class_if(accepted, "accepted")
                        .class_if(!accepted, "rejected")
                        .class_if(is_json && all3, "structurally_valid_all_fields")
                        .class_if(c.fields.len() > 3, "duplicate_fields")
                        .class_if(c.shape % 5 == 1 && is_json && all3, "sequence_shaped_all_fields")
                        .class_if(c.shape % 5 > 1, "other_shapes"),
                )
            }
        }
    }
}

#[derive(Clone, Debug, Serialize, Deserialize)]
pub struct BytesCase {
    pub golden: u8,
    /// (kind, position, value)
    pub muts: Vec<(u8, u16, u64)>,
}

pub fn goldens() -> Vec<String> {
    let mut out = vec![];
    for (b, seed) in [(4usize, 7u64), (5, 0), (6, 99)] {
        let mut h: Hll = HyperLogLog::with_hash(b, SerBH { seed });
        for i in 0..40u64 {
            h.add(&i);
        }
        out.push(serde_json::to_string(&h).unwrap());
    }
    out.push("{\"registers\":[],\"b\":4,\"buildhasher\":{\"seed\":1}}".to_string());
    out.push("{\"b\":4,\"buildhasher\":{\"seed\":1},\"registers\":[0,0,0,0,0,0,0,0,0,0,0,0,0,0,0,0]}".to_string());
    // sequence-shaped documents (rejected by the unchanged tree; a derive-style visit_seq would take them)
    out.push("[[0,0,0,0,0,0,0,0,0,0,0,0,0,0,0,0],4,{\"seed\":1}]".to_string());
    out.push("[[0,0,3,0,0,0,1,0,0,0,0,0,0,2,0,0,0,0,0,0,0,0,0,0,0,0,0,0,0,0,0,0],5,{\"seed\":9}]".to_string());
    out
}

pub fn mutate(c: &BytesCase) -> Vec<u8> {
    let g = goldens();
    let mut bytes = g[c.golden as usize % g.len()].clone().into_bytes();
    const TOKENS: &[&str] = &["0", "3", "4", "18", "19", "64", "70", "255", "256", "-1", "1.5", "18446744073709551615", "\"4\"", "null", "[]", "{}", ",", ":", "\"b\"", "\"registers\"", "\"buildhasher\"", "\"seed\"", "[0,0]", "true"];
    for &(kind, pos, val) in &c.muts {
        if bytes.is_empty() {
            break;
        }
        let p = idx(pos, bytes.len());
        match kind % 7 {
            6 => {
                // repeat the body of the first JSON array (val % 7 + 1) more times: k * 2^b registers
                if let (Some(a), Some(b)) = (bytes.iter().position(|&c| c == b'['), bytes.iter().position(|&c| c == b']')) {
                    if a + 1 < b {
                        let body: Vec<u8> = bytes[a + 1..b].to_vec();
                        let mut ins = vec![];
                        for _ in 0..(val % 7 + 1) {
                            ins.push(b',');
                            ins.extend_from_slice(&body);
                        }
                        if ins.len() < 20_000 {
                            bytes.splice(b..b, ins);
                        }
                    }
                }
            }
            0 => bytes[p] = val as u8,
            1 => {
                bytes.remove(p);
            }
            2 => bytes.insert(p, val as u8),
            3 => {
                // replace the number token at/after p by a special token
                let mut s = p;
                while s < bytes.len() && !bytes[s].is_ascii_digit() {
                    s += 1;
                }
                let mut e = s;
                while e < bytes.len() && bytes[e].is_ascii_digit() {
                    e += 1;
                }
                if s < e {
                    let tok = TOKENS[(val as usize) % 12].as_bytes();
                    bytes.splice(s..e, tok.iter().copied());
                }
            }
            4 => {
                let tok = TOKENS[(val as usize) % TOKENS.len()].as_bytes();
                let at = p;
                for (i, &t) in tok.iter().enumerate() {
                    bytes.insert(at + i, t);
                }
            }
            _ => {
                // duplicate or drop a slice
                let q = idx((val & 0xffff) as u16, bytes.len());
                let (a, b) = (p.min(q), p.max(q));
                if val & 0x10000 == 0 {
                    let sl: Vec<u8> = bytes[a..b].to_vec();
                    for (i, &t) in sl.iter().enumerate().take(64) {
                        bytes.insert(b + i, t);
                    }
                } else {
                    bytes.drain(a..b);
                }
            }
        }
    }
    bytes
}

pub struct Bytes;

impl Check for Bytes {
    type Case = BytesCase;
    fn name(&self) -> &'static str {
        "byte_mutations"
    }
    fn eval(&self, c: &BytesCase) -> Verdict {
        let bytes = mutate(c);
        match check_bytes(&bytes) {
            Err((sig, msg)) => fail(sig, format!("{} — input: {}", msg, String::from_utf8_lossy(&bytes[..bytes.len().min(200)]))),
            Ok((is_json, accepted)) => Verdict::Pass(
                Info::new(is_json, hash64(&bytes))
                    .class_if(accepted, "accepted")
                    .class_if(is_json && !accepted, "json_but_rejected")
                    .class_if(!is_json, "not_json"),
            ),
        }
    }
}

fn rt_strategy(tier: Tier) -> BoxedStrategy<RtCase> {
    let bmax = tier.pick(14u8, 18u8);
    let setregs = prop_oneof![
        1 => Just(vec![]),
        1 => prop::collection::vec((any::<u16>(), prop_oneof![Just(255u8), Just(64), Just(62), Just(61), Just(48), any::<u8>()]), 1..6),
    ];
    (prop_oneof![4 => 4u8..=8, 2 => 4u8..=bmax, 1 => Just(18u8)], any::<u64>(), prop::collection::vec(hspec(), 0..80), prop::collection::vec(any::<u64>(), 0..20), prop::collection::vec(hspec(), 0..20), prop::collection::vec(hspec(), 0..20), setregs)
        .prop_map(|(b, seed, hashes, keys, more, third, set_registers)| RtCase { b, seed, hashes, keys, more, third, set_registers })
        .boxed()
}

fn doc_strategy(tier: Tier) -> BoxedStrategy<DocCase> {
    let _ = tier;
    let b = prop_oneof![
        6 => prop_oneof![Just(-1i64), Just(0), Just(1), Just(3), Just(4), Just(5), Just(8), Just(10), Just(12), Just(18), Just(19), Just(63), Just(64), Just(65), Just(70)].prop_map(BSpec::Int),
        5 => (4i64..=12).prop_map(BSpec::Int),
        1 => prop_oneof![Just(u64::MAX), Just(1u64 << 63), Just(1u64 << 32)].prop_map(BSpec::Big),
        1 => prop_oneof![Just(1.5f64), Just(4.0), Just(-4.0), Just(1e300)].prop_map(BSpec::Float),
        1 => prop_oneof![Just("4".to_string()), Just("".to_string())].prop_map(BSpec::Str),
        1 => Just(BSpec::Null),
    ];
    let len = prop_oneof![
        2 => prop_oneof![Just(0u32), Just(1), Just(15), Just(16), Just(17), Just(32)].prop_map(LenSpec::Abs),
        1 => (0u32..300).prop_map(LenSpec::Abs),
        3 => (prop_oneof![Just(3u8), Just(5), Just(6), Just(7), Just(9), Just(12), 1u8..20], prop_oneof![3 => Just(1u8), 1 => Just(2u8), 1 => Just(4u8)]).prop_map(|(mul, div)| LenSpec::Mul { mul, div }),
        6 => (-1i8..=1, -1i8..=1).prop_map(|(shift, off)| LenSpec::Rel { shift, off }),
        6 => Just(LenSpec::Rel { shift: 0, off: 0 }),
    ];
    let fields = prop_oneof![
        6 => Just(vec![0u8, 1, 2]),
        2 => Just(vec![2u8, 1, 0]),
        1 => Just(vec![1u8, 0, 2]),
        2 => prop::collection::vec(0u8..3, 0..5),
        1 => Just(vec![0u8, 1, 2, 1]),
        1 => Just(vec![0u8, 1, 2, 0]),
    ];
    (b, len, prop_oneof![4 => 0u16..=64, 1 => Just(255u16), 1 => Just(256u16), 1 => Just(1000u16)], prop::collection::vec((any::<u16>(), prop_oneof![Just(-1i64), Just(255), Just(256), Just(65), 0i64..64]), 0..3), fields, prop::bool::weighted(0.1), any::<u8>(), prop_oneof![14 => Just(0u8), 4 => Just(1u8), 1 => Just(2u8), 1 => Just(3u8), 1 => Just(4u8)])
        .prop_map(|(b, len, fill, special_at, fields, unknown_field, hasher_doc, shape)| DocCase { b, len, fill, special_at, fields, unknown_field, hasher_doc, shape })
        .boxed()
}

fn bytes_strategy() -> BoxedStrategy<BytesCase> {
    (any::<u8>(), prop::collection::vec((any::<u8>(), any::<u16>(), any::<u64>()), 0..6)).prop_map(|(golden, muts)| BytesCase { golden, muts }).boxed()
}

/// raw input bytes (libFuzzer artifacts), hex encoded
#[derive(Clone, Debug, Serialize, Deserialize)]
pub struct RawCase {
    pub hex: String,
}

pub fn to_hex(b: &[u8]) -> String {
    b.iter().map(|x| format!("{:02x}", x)).collect()
}

pub fn from_hex(s: &str) -> Vec<u8> {
    (0..s.len() / 2).filter_map(|i| u8::from_str_radix(&s[2 * i..2 * i + 2], 16).ok()).collect()
}

pub struct Raw;

impl Check for Raw {
    type Case = RawCase;
    fn name(&self) -> &'static str {
        "raw_bytes"
    }
    fn eval(&self, c: &RawCase) -> Verdict {
        let bytes = from_hex(&c.hex);
        match check_bytes(&bytes) {
            Err((sig, msg)) => fail(sig, format!("{} — input: {}", msg, String::from_utf8_lossy(&bytes[..bytes.len().min(200)]))),
            Ok((is_json, _)) => Verdict::Pass(Info::new(is_json, hash64(&bytes))),
        }
    }
}

pub fn checks() -> Vec<Box<dyn DynCheck>> {
    vec![Box::new(RoundTrip), Box::new(Docs), Box::new(Bytes), Box::new(Raw)]
}

pub fn run(ctx: &Ctx) {
    ctx.set_rule("round_trip: b in 4..=18, registers from generated boundary hashes and add(x) keys (in half of the cases additionally overwritten with arbitrary u8 values through with_registers_and_hash) under a serialisable seeded hasher, through serde_json string and Value; equal sketch, b, registers, hasher, count and identical reaction to further adds and a merge with a third sketch. documents: structurally generated JSON documents with b in {-1,0,3,4..18,19,63,64,70,2^64-1,1.5,\"4\",null} and registers length in {0,1,2^b-1,2^b,2^b+1,2^(b+-1), k*2^b for k in 3..20, k*2^b/2, random < 300} varied independently, register values > 255 / negative, fields omitted, duplicated, reordered, unknown; the same content also as a JSON array of the field values (sequence shape), flattened, or wrapped in one-element arrays. byte_mutations: golden documents with up to 5 byte/token/slice mutations. Oracle: Err, or Ok(h) with 4<=b<=18 and exactly 2^b registers on which add_hashed, add, count and merge (both directions) do not panic. Non-trivial: round trips with non-empty registers; documents that parse as JSON with all three fields present; mutated inputs that still parse as JSON. Distinct = hash of the case / of the bytes.");
    ctx.assume("serde_json is the serialisation format exercised; the hasher is a seeded SipHash newtype with derive(Serialize, Deserialize)");
    ctx.run_regressions(&[&RoundTrip, &Docs, &Bytes]);
    let t = ctx.tier;
    ctx.run_random(&RoundTrip, t.pick(3_000, 40_000), move || rt_strategy(t));
    ctx.run_random(&Docs, t.pick(18_000, 300_000), move || doc_strategy(t));
    ctx.run_random(&Bytes, t.pick(40_000, 1_000_000), bytes_strategy);
    if t == Tier::Thorough && !ctx.failed() {
        if let Some(o) = crate::engine::fuzz::run_libfuzzer(ctx, "hll_json", 2_000_000, 4096) {
            ctx.add_evaluations("libfuzzer_hll_json", o.executed, serde_json::json!({"engine": "libFuzzer", "target": "hll_json", "executed_units": o.executed, "corpus_seeded_from": "harness/fuzz/seeds/hll_json"}));
            ctx.note("libfuzzer_hll_json", o.note.clone());
            for a in &o.artifacts {
                if let Ok(bytes) = std::fs::read(a) {
                    let case = RawCase { hex: to_hex(&bytes) };
                    match Raw.eval(&case) {
                        Verdict::Fail { sig, msg } => {
                            ctx.handle_fail("raw_bytes", &serde_json::to_value(&case).unwrap(), &sig, &format!("libFuzzer artifact {:?}: {}", a.file_name().unwrap(), msg), None);
                        }
                        Verdict::Pass(_) => ctx.inconclusive(format!("libFuzzer produced artifact {:?} but the oracle passes on it when replayed (timeout / OOM?)", a)),
                    }
                }
            }
        }
    }
    ctx.require_class("documents", "accepted", 0.02);
    ctx.require_class("documents", "structurally_valid_all_fields", 0.4);
    ctx.require_class("documents", "sequence_shaped_all_fields", 0.08);
    ctx.require_class("byte_mutations", "json_but_rejected", 0.02);
    ctx.require_class("byte_mutations", "accepted", 0.02);
}
