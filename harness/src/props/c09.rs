//! C09 — LossyCounter frequency guarantees.
use crate::engine::*;
use pdatastructs::topk::lossycounter::LossyCounter;
use proptest::prelude::*;
use serde::{Deserialize, Serialize};
use std::collections::{BTreeSet, HashMap};

#[derive(Clone, Debug, Serialize, Deserialize)]
pub enum Ctor {
    Epsilon(f64),
    Width(usize),
}

#[derive(Clone, Debug, Serialize, Deserialize)]
pub enum Stream {
    Explicit(Vec<u16>),
    Uniform { alphabet: u32, len: u32, seed: u64 },
    Zipf { alphabet: u32, len: u32, seed: u64 },
    Distinct { len: u32 },
    /// element 0 occurs on the first slot after every window end, noise elsewhere
    Boundary { alphabet: u32, len: u32, seed: u64, offset: u8 },
    Blocks { alphabet: u32, block: u32, len: u32 },
    /// `noise` distinct elements (all legitimately pruned; more than 2^16 windows for small widths), then `heavy`
    /// copies of one element interleaved with a little noise
    LateHeavy { noise: u32, heavy: u32 },
}

#[derive(Clone, Debug, Serialize, Deserialize)]
pub struct Case {
    pub ctor: Ctor,
    pub stream: Stream,
    pub thresholds: Vec<f64>,
}

fn materialise(s: &Stream, width: usize) -> Vec<u64> {
    match s {
        Stream::Explicit(v) => v.iter().map(|&x| x as u64).collect(),
        Stream::Uniform { alphabet, len, seed } => {
            let mut g = stat::SplitMix64(*seed);
            (0..*len).map(|_| g.below((*alphabet).max(1) as u64)).collect()
        }
        Stream::Zipf { alphabet, len, seed } => {
            let mut g = stat::SplitMix64(*seed);
            let a = (*alphabet).max(1) as f64;
            (0..*len)
                .map(|_| {
                    // inverse-cdf of a continuous 1/x density on [1, a+1)
                    let u = g.f64();
                    ((a + 1.0).powf(u) - 1.0).floor() as u64
                })
                .collect()
        }
        Stream::Distinct { len } => (0..*len as u64).collect(),
        Stream::LateHeavy { noise, heavy } => (0..*noise as u64).chain((0..*heavy as u64).map(|i| if i % 7 == 6 { 1_000_000_000 + i } else { u64::MAX })).collect(),
        Stream::Boundary { alphabet, len, seed, offset } => {
            let mut g = stat::SplitMix64(*seed);
            let w = width.max(1);
            (0..*len as usize)
                .map(|i| if i % w == (*offset as usize) % w { 0 } else { 1 + g.below((*alphabet).max(1) as u64) })
                .collect()
        }
        Stream::Blocks { alphabet, block, len } => (0..*len as u64).map(|i| (i / (*block).max(1) as u64) % (*alphabet).max(1) as u64).collect(),
    }
}

/// Reference implementation of lossy counting, written from Manku & Motwani (VLDB 2002), §4.2.
struct RefLossy {
    w: usize,
    n: usize,
    /// element -> (f, delta)
    d: HashMap<u64, (usize, usize)>,
}

impl RefLossy {
    fn add(&mut self, e: u64) -> bool {
        self.n += 1;
        let b_current = self.n / self.w + (self.n % self.w != 0) as usize; // ceil(N / w), without overflow for huge w
        let was_new = match self.d.get_mut(&e) {
            Some(x) => {
                x.0 += 1;
                false
            }
            None => {
                self.d.insert(e, (1, b_current - 1));
                true
            }
        };
        if self.n % self.w == 0 {
            self.d.retain(|_, v| v.0 + v.1 > b_current);
        }
        was_new
    }
}

fn harmonic(n: usize) -> f64 {
    (1..=n).map(|i| 1.0 / i as f64).sum()
}

pub struct C09;

impl Check for C09 {
    type Case = Case;
    fn name(&self) -> &'static str {
        "prefixes"
    }
    fn eval(&self, c: &Case) -> Verdict {
        let mut lc: LossyCounter<u64> = match c.ctor {
            Ctor::Epsilon(e) => LossyCounter::with_epsilon(e),
            Ctor::Width(w) => LossyCounter::with_width(w),
        };
        let width = lc.width();
        let eps = lc.epsilon();
        if width == 0 {
            return fail("width-0", "width() == 0".to_string());
        }
        if let Ctor::Epsilon(e) = c.ctor {
            if (width as f64) < 1.0 / e - 1e-9 || eps != e {
                return fail("ctor-params", format!("with_epsilon({}) gives width {} epsilon {}", e, width, eps));
            }
        }
        let items = materialise(&c.stream, width);
        let mut reference = RefLossy { w: width, n: 0, d: HashMap::new() };
        let mut truth: HashMap<u64, usize> = HashMap::new();
        let mut pruned_ever: BTreeSet<u64> = BTreeSet::new();
        let mut readded = false;
        let mut windows = 0usize;
        let mut checked = 0u64;
        let mut next_geo = 400usize;
        for (pos, &e) in items.iter().enumerate() {
            let before: BTreeSet<u64> = if (pos + 1) % width == 0 { reference.d.keys().copied().collect() } else { BTreeSet::new() };
            let in_ref = reference.d.contains_key(&e);
            let got = lc.add(e);
            let want = reference.add(e);
            *truth.entry(e).or_insert(0) += 1;
            let n = pos + 1;
            if want != !in_ref {
                return fail("harness-reference-bug", "reference add result inconsistent".to_string());
            }
            if got != want {
                return fail(
                    format!("add-returns-{}", got),
                    format!("add #{} of element {}: returned {} but the element was {} at that moment (width {})", n, e, got, if in_ref { "being tracked" } else { "not tracked" }, width),
                );
            }
            if want && pruned_ever.contains(&e) {
                readded = true;
            }
            if n % width == 0 {
                windows += 1;
                for k in before {
                    if !reference.d.contains_key(&k) {
                        pruned_ever.insert(k);
                    }
                }
                if !reference.d.contains_key(&e) {
                    pruned_ever.insert(e);
                }
            }
            if lc.n() != n {
                return fail("n!=adds", format!("n() = {} after {} adds", lc.n(), n));
            }
            let near_window = n % width <= 1 || n % width == width - 1;
            let do_check = n <= 400 || n == next_geo || (near_window && n <= 4000) || n == items.len();
            if n == next_geo {
                next_geo = next_geo * 5 / 4 + 1;
            }
            if !do_check {
                continue;
            }
            checked += 1;
            // (2) table identity
            let table: BTreeSet<u64> = lc.query(0.0).collect();
            let rtable: BTreeSet<u64> = reference.d.keys().copied().collect();
            if table != rtable {
                let extra: Vec<_> = table.difference(&rtable).take(3).collect();
                let missing: Vec<_> = rtable.difference(&table).take(3).collect();
                return fail(
                    if !missing.is_empty() { "table-misses-entry" } else { "table-keeps-entry" },
                    format!("after {} adds (width {}): query(0) has {} entries, the reference lossy counter {}; extra {:?} missing {:?}", n, width, table.len(), rtable.len(), extra, missing),
                );
            }
            // (5) size bound
            let bound = width as f64 * (harmonic(n / width + (n % width != 0) as usize) + 1.0);
            if table.len() as f64 > bound {
                return fail("table-too-large", format!("after {} adds: {} tracked elements > width*(H(ceil(n/width))+1) = {:.1}", n, table.len(), bound));
            }
            // (3), (4)
            let nf = n as f64;
            let guard = 1e-9 * nf + 1e-9;
            for &s in &c.thresholds {
                let res: BTreeSet<u64> = lc.query(s).collect();
                if res.len() != lc.query(s).count() {
                    return fail("query-duplicates", format!("query({}) yields duplicates", s));
                }
                for (&k, &t) in &truth {
                    let tf = t as f64;
                    if tf >= s * nf + guard && tf > eps * nf + guard && !res.contains(&k) {
                        return fail(
                            "miss",
                            format!("after {} adds: element {} has true frequency {} >= s*n = {:.3} and > epsilon*n = {:.3} but is not in query({}) (width {}, epsilon {})", n, k, t, s * nf, eps * nf, s, width, eps),
                        );
                    }
                }
                for &k in &res {
                    let tf = truth.get(&k).copied().unwrap_or(0) as f64;
                    if tf < (s - eps) * nf - guard {
                        return fail(
                            "intruder",
                            format!("after {} adds: element {} is in query({}) but its true frequency {} < (s-epsilon)*n = {:.3}", n, k, s, tf, (s - eps) * nf),
                        );
                    }
                }
            }
        }
        let nontrivial = windows >= 2 && readded;
        let mut info = Info::new(nontrivial, hash64(&(width, &items)))
            .class_if(windows >= 2, "two_windows")
            .class_if(readded, "pruned_and_readded")
            .class_if(matches!(c.stream, Stream::Boundary { .. }), "boundary_adversary")
            .class_if(matches!(c.stream, Stream::LateHeavy { .. }), "heavy_hitter_after_65536_windows")
            .class_if(matches!(c.ctor, Ctor::Epsilon(_)), "with_epsilon");
        info.inner_evals = checked;
        Verdict::Pass(info)
    }
}

fn strategy(tier: Tier) -> BoxedStrategy<Case> {
    let maxlen = tier.pick(3_000u32, 50_000u32);
    let ctor = prop_oneof![
        3 => prop_oneof![Just(0.5f64), Just(0.34), Just(0.2), Just(0.1), Just(0.01), Just(0.003), Just(0.25), Just(1.0 / 3.0)].prop_map(Ctor::Epsilon),
        2 => (0.002f64..0.999).prop_map(Ctor::Epsilon),
        4 => (1usize..=40).prop_map(Ctor::Width),
        1 => (1usize..=200).prop_map(Ctor::Width),
        // windows that never end within the stream: the counter must be exact
        1 => prop_oneof![Just(Ctor::Width(1usize << 62)), Just(Ctor::Width(usize::MAX)), Just(Ctor::Epsilon(1e-9)), Just(Ctor::Epsilon(1e-15))],
        // epsilon at the edges of (0, 1) and one ulp either side of 1/k (where ceil(1/epsilon) flips)
        1 => prop_oneof![Just(1.0f64 - f64::EPSILON / 2.0), Just(1.0 - f64::EPSILON), Just(0.9999999), Just(f64::from_bits(0.5f64.to_bits() - 1)), Just(f64::from_bits(0.5f64.to_bits() + 1))].prop_map(Ctor::Epsilon),
        1 => (2usize..=60, -2i64..=2).prop_map(|(k, ulps)| Ctor::Epsilon(f64::from_bits(((1.0 / k as f64).to_bits() as i64 + ulps) as u64))),
    ];
    let stream = prop_oneof![
        5 => prop::collection::vec(prop_oneof![0u16..4, 0u16..30, any::<u16>()], 0..300).prop_map(Stream::Explicit),
        2 => (1u32..40, 0u32..maxlen, any::<u64>()).prop_map(|(alphabet, len, seed)| Stream::Uniform { alphabet, len, seed }),
        1 => (1u32..10_000, 0u32..maxlen, any::<u64>()).prop_map(|(alphabet, len, seed)| Stream::Uniform { alphabet, len, seed }),
        2 => (1u32..10_000, 0u32..maxlen, any::<u64>()).prop_map(|(alphabet, len, seed)| Stream::Zipf { alphabet, len, seed }),
        1 => (0u32..maxlen).prop_map(|len| Stream::Distinct { len }),
        3 => (1u32..200, 0u32..maxlen, any::<u64>(), 0u8..3).prop_map(|(alphabet, len, seed, offset)| Stream::Boundary { alphabet, len, seed, offset }),
        1 => (1u32..50, 1u32..30, 0u32..maxlen).prop_map(|(alphabet, block, len)| Stream::Blocks { alphabet, block, len }),
    ];
    (ctor, stream, prop::collection::vec(prop_oneof![Just(0.0f64), Just(0.1), Just(0.5), Just(1.0), 0.0f64..=1.0], 0..4))
        .prop_map(|(ctor, stream, mut thresholds)| {
            let eps = match ctor {
                Ctor::Epsilon(e) => e,
                Ctor::Width(w) => 1.0 / w as f64,
            };
            thresholds.push(eps);
            thresholds.push((2.0 * eps).min(1.0));
            Case { ctor, stream, thresholds }
        })
        .boxed()
}

/// More than 2^16 windows of noise, then a heavy hitter (counters of window numbers must not be narrow).
fn late_heavy_strategy() -> BoxedStrategy<Case> {
    (2usize..=4, 0u32..40, 20_000u32..90_000)
        .prop_map(|(w, extra, heavy)| {
            let noise = (65_536 + extra) * w as u32 + extra % w as u32;
            Case { ctor: Ctor::Width(w), stream: Stream::LateHeavy { noise, heavy }, thresholds: vec![0.1, 0.2, 1.0 / w as f64, (2.0 / w as f64).min(1.0)] }
        })
        .boxed()
}

/// Every stream over a tiny alphabet up to a length bound, for every small width, through the
/// same oracle (which checks every prefix).
fn exhaustive(ctx: &Ctx, alphabet: u16, max_len: usize, widths: std::ops::RangeInclusive<usize>) {
    let a = alphabet as usize;
    let n_streams: usize = (0..=max_len).map(|l| a.pow(l as u32)).sum();
    let ws: Vec<usize> = widths.clone().collect();
    ctx.run_indexed("exhaustive_small_streams", n_streams * ws.len(), |i, acc| {
        let w = ws[i % ws.len()];
        let mut code = i / ws.len();
        // decode (length, digits)
        let mut len = 0usize;
        loop {
            let cnt = a.pow(len as u32);
            if code < cnt {
                break;
            }
            code -= cnt;
            len += 1;
        }
        let mut items = Vec::with_capacity(len);
        for _ in 0..len {
            items.push((code % a) as u16);
            code /= a;
        }
        let thresholds = vec![0.0, 1.0 / w as f64, (2.0 / w as f64).min(1.0), 0.3, 0.5, 0.75, 1.0];
        let case = Case { ctor: Ctor::Width(w), stream: Stream::Explicit(items), thresholds };
        match C09.eval(&case) {
            Verdict::Fail { sig, msg } => Some((serde_json::to_value(&case).unwrap(), sig, msg)),
            Verdict::Pass(info) => {
                acc.pass_enum(info.nontrivial, || serde_json::to_value(&case).unwrap());
                None
            }
        }
    });
    ctx.mark_exhaustive(
        "exhaustive_small_streams",
        format!("every stream over an alphabet of {} elements up to length {} for every width in {:?} (with_width), every prefix, thresholds {{0, 1/w, 2/w, .3, .5, .75, 1}}", alphabet, max_len, widths),
    );
}

pub fn checks() -> Vec<Box<dyn DynCheck>> {
    vec![Box::new(C09)]
}

pub fn run(ctx: &Ctx) {
    ctx.set_rule("exhaustive: every stream over a 3-element alphabet up to length 10 (thorough: 13, and 4 elements up to length 10) for widths 1..=5 (6), every prefix. generated: with_epsilon(e) / with_width(w) (rarely epsilon next to 1, next to 0.5 and within 2 ulps of 1/k; rarely windows that never end: width 2^62, usize::MAX, epsilon 1e-9, 1e-15) x stream family (explicit shrinkable item lists, uniform, zipf, all-distinct, boundary adversary whose occurrences sit on the first slots after each window end, blocks; rarely more than 2^16 windows of distinct noise for width 2..4 followed by a heavy hitter) x thresholds {epsilon, 2*epsilon, 0, .1, .5, 1, random}; checked at every prefix up to 400, around every window end up to 4000 and at geometric prefixes beyond. Oracle: reference Manku-Motwani lossy counter + exact counts: n(), add's return value, query(0) == reference table, no miss (true >= s*n and > eps*n), no intruder (true < (s-eps)*n), table size <= width*(H(ceil(n/width))+1). Non-trivial: the stream crosses >= 2 window ends and an element was pruned and later re-added. Distinct = (width, stream). evaluations = cases + prefixes checked.");
    ctx.assume("float guard band 1e-9*n on the s*n, epsilon*n and (s-epsilon)*n comparisons");
    ctx.run_regressions(&[&C09]);
    let t = ctx.tier;
    match t {
        Tier::Quick => exhaustive(ctx, 3, 10, 1..=5),
        Tier::Thorough => {
            exhaustive(ctx, 3, 13, 1..=6);
            exhaustive(ctx, 4, 10, 1..=5);
        }
    }
    ctx.run_random(&C09, t.pick(40_000, 600_000), move || prop_oneof![120 => strategy(t), 1 => late_heavy_strategy()].boxed());
    ctx.require_class("prefixes", "pruned_and_readded", 0.2);
    ctx.require_class("prefixes", "boundary_adversary", 0.1);
    if ctx.tier == Tier::Thorough && !ctx.failed() {
        // coverage-guided search over the same case space (libFuzzer, 8 parallel campaigns)
        crate::engine::fuzz::run_sketch_ops(ctx, 1, 480_000);
    }
}
