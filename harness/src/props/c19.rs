//! C19 — clear() restores a fresh structure and clone() is an independent copy.
use crate::engine::*;
use crate::support::filters::*;
use crate::support::hashers::{GenBH, HKind};
use crate::support::rng::{take_last_clone, RngHandle, ScriptRng};
use crate::support::td::*;
use pdatastructs::countminsketch::CountMinSketch;
use pdatastructs::hyperloglog::HyperLogLog;
use pdatastructs::reservoirsampling::ReservoirSampling;
use pdatastructs::topk::cmsheap::CMSHeap;
use pdatastructs::topk::lossycounter::LossyCounter;
use proptest::prelude::*;
use serde::{Deserialize, Serialize};

#[derive(Clone, Debug, Serialize, Deserialize)]
pub struct GenOp {
    pub kind: u8,
    pub a: u16,
    pub b: u16,
    pub x: f64,
}

#[derive(Clone, Debug, Serialize, Deserialize)]
pub enum Cfg {
    Filter { cfg: FCfg, hk: HKind, rng: RngSpec, rng2: RngSpec, universe: Vec<KeySpec> },
    Cms { w: usize, d: usize, hk: HKind },
    Hll { b: usize, hk: HKind },
    TDigest { scale: Scale, delta: f64, backlog: usize },
    Reservoir { k: usize, rng: RngSpec },
    CmsHeap { k: usize, w: usize, d: usize, alphabet: u16 },
    Lossy { width: usize, alphabet: u16 },
}

impl Cfg {
    fn kind(&self) -> &'static str {
        match self {
            Cfg::Filter { cfg, .. } => cfg.kind(),
            Cfg::Cms { .. } => "cms",
            Cfg::Hll { .. } => "hll",
            Cfg::TDigest { scale, .. } => match scale {
                Scale::K0 => "tdigest_k0",
                Scale::K1 => "tdigest_k1",
                Scale::K2 => "tdigest_k2",
                Scale::K3 => "tdigest_k3",
            },
            Cfg::Reservoir { .. } => "reservoir",
            Cfg::CmsHeap { .. } => "cmsheap",
            Cfg::Lossy { .. } => "lossycounter",
        }
    }
}

#[derive(Clone, Debug, Serialize, Deserialize)]
pub struct Case {
    pub cfg: Cfg,
    pub pre: Vec<GenOp>,
    pub cont: Vec<GenOp>,
}

/// Result of an operation / an observation vector: plain u64 words (floats by bit pattern).
type Obs = Vec<u64>;

const ERR: u64 = u64::MAX - 1;

trait Subject: Sized {
    /// new structure of the same configuration; RNG-bearing ones continue from `self`'s current RNG state
    fn fresh_like(&self) -> Self;
    fn deep_clone(&self) -> Self;
    /// (result words, was something added?, did the op fail?)
    fn apply(&mut self, op: &GenOp) -> (Obs, bool, bool);
    fn observe(&self) -> Obs;
    fn clear(&mut self);
    /// None if the structure has no is_empty()
    fn is_empty(&self) -> Option<bool>;
    /// model of emptiness where "added since creation/clear" is not enough (cuckoo deletes)
    fn model_empty_override(&self) -> Option<bool> {
        None
    }
}

// ------------------------------------------------------------------ filters
struct FSub {
    cfg: FCfg,
    hk: HKind,
    rng2: RngSpec,
    uni: Vec<u64>,
    probe: Vec<u64>,
    f: AnyFilter,
}

impl FSub {
    fn key(&self, i: u16) -> u64 {
        self.uni[idx(i, self.uni.len())]
    }
}

impl Subject for FSub {
    fn fresh_like(&self) -> Self {
        let f = match &self.f {
            AnyFilter::Cuckoo(_, h) => {
                let FCfg::Cuckoo { bucketsize, n_buckets, l_fp } = self.cfg else { unreachable!() };
                let (r, h2) = ScriptRng::from_state(h.borrow().clone());
                AnyFilter::Cuckoo(pdatastructs::filters::cuckoofilter::CuckooFilter::with_params_and_hash(r, bucketsize, n_buckets, l_fp, GenBH(self.hk)), h2)
            }
            _ => AnyFilter::new(&self.cfg, self.hk, &self.rng2),
        };
        FSub { cfg: self.cfg, hk: self.hk, rng2: self.rng2.clone(), uni: self.uni.clone(), probe: self.probe.clone(), f }
    }
    fn deep_clone(&self) -> Self {
        FSub { cfg: self.cfg, hk: self.hk, rng2: self.rng2.clone(), uni: self.uni.clone(), probe: self.probe.clone(), f: self.f.deep_clone() }
    }
    fn apply(&mut self, op: &GenOp) -> (Obs, bool, bool) {
        let is_cuckoo = matches!(self.f, AnyFilter::Cuckoo(..));
        match op.kind % 8 {
            0..=4 => match self.f.insert(self.key(op.a)) {
                Ok(b) => (vec![b as u64], true, false),
                Err(()) => (vec![ERR], false, true),
            },
            5 if is_cuckoo => {
                let r = self.f.delete(self.key(op.a)).unwrap();
                (vec![r as u64], false, false)
            }
            _ => {
                let mut other = AnyFilter::new(&self.cfg, self.hk, &self.rng2);
                let mut any = false;
                for k in [self.key(op.a), self.key(op.b)] {
                    if other.insert(k).is_ok() {
                        any = true;
                    }
                }
                match self.f.union(&other) {
                    Ok(()) => (vec![1], any, false),
                    Err(()) => (vec![ERR], false, true),
                }
            }
        }
    }
    fn observe(&self) -> Obs {
        let mut o = vec![self.f.len() as u64, self.f.is_empty() as u64];
        o.extend(self.probe.iter().map(|&k| self.f.query(k) as u64));
        if let AnyFilter::Cuckoo(..) = self.f {
            for &k in self.uni.iter().take(6) {
                let mut g = self.f.deep_clone();
                let mut n = 0u64;
                while g.delete(k).unwrap() && n < 1000 {
                    n += 1;
                }
                o.push(n);
            }
        }
        o
    }
    fn clear(&mut self) {
        self.f.clear()
    }
    fn is_empty(&self) -> Option<bool> {
        Some(self.f.is_empty())
    }
    fn model_empty_override(&self) -> Option<bool> {
        match self.f {
            // with deletes: empty iff the multiset is empty, which len() tracks (C14)
            AnyFilter::Cuckoo(..) => Some(self.f.len() == 0),
            _ => None,
        }
    }
}

// ------------------------------------------------------------------ CMS
struct CmsSub {
    s: CountMinSketch<u64, u64, GenBH>,
    w: usize,
    d: usize,
    hk: HKind,
}

impl Subject for CmsSub {
    fn fresh_like(&self) -> Self {
        CmsSub { s: CountMinSketch::with_params_and_hasher(self.w, self.d, GenBH(self.hk)), w: self.w, d: self.d, hk: self.hk }
    }
    fn deep_clone(&self) -> Self {
        CmsSub { s: self.s.clone(), w: self.w, d: self.d, hk: self.hk }
    }
    fn apply(&mut self, op: &GenOp) -> (Obs, bool, bool) {
        let k = (op.a % 24) as u64;
        match op.kind % 4 {
            0 | 1 => (vec![self.s.add(&k)], true, false),
            2 => (vec![self.s.add_n(&k, &((op.b % 50) as u64 + 1))], true, false),
            _ => {
                let mut o: CountMinSketch<u64, u64, GenBH> = CountMinSketch::with_params_and_hasher(self.w, self.d, GenBH(self.hk));
                o.add(&k);
                o.add_n(&((op.b % 24) as u64), &3);
                self.s.merge(&o);
                (vec![0], true, false)
            }
        }
    }
    fn observe(&self) -> Obs {
        let mut o: Obs = (0..30u64).map(|k| self.s.query_point(&k)).collect();
        o.push(self.s.is_empty() as u64);
        o
    }
    fn clear(&mut self) {
        self.s.clear()
    }
    fn is_empty(&self) -> Option<bool> {
        Some(self.s.is_empty())
    }
}

// ------------------------------------------------------------------ HLL
struct HllSub {
    s: HyperLogLog<u64, GenBH>,
    b: usize,
    hk: HKind,
}

impl Subject for HllSub {
    fn fresh_like(&self) -> Self {
        HllSub { s: HyperLogLog::with_hash(self.b, GenBH(self.hk)), b: self.b, hk: self.hk }
    }
    fn deep_clone(&self) -> Self {
        HllSub { s: self.s.clone(), b: self.b, hk: self.hk }
    }
    fn apply(&mut self, op: &GenOp) -> (Obs, bool, bool) {
        match op.kind % 4 {
            0 | 1 => self.s.add(&(op.a as u64)),
            2 => self.s.add_hashed(mix(op.a as u64, op.b as u64)),
            _ => {
                let mut o: HyperLogLog<u64, GenBH> = HyperLogLog::with_hash(self.b, GenBH(self.hk));
                o.add_hashed(mix(op.b as u64, 5));
                o.add(&(op.a as u64));
                self.s.merge(&o);
            }
        }
        (vec![], true, false)
    }
    fn observe(&self) -> Obs {
        vec![hash64(self.s.registers()), self.s.count() as u64, self.s.is_empty() as u64, self.s.m() as u64]
    }
    fn clear(&mut self) {
        self.s.clear()
    }
    fn is_empty(&self) -> Option<bool> {
        Some(self.s.is_empty())
    }
}

// ------------------------------------------------------------------ TDigest
struct TdSub {
    d: AnyTD,
    scale: Scale,
    delta: f64,
    backlog: usize,
}

impl Subject for TdSub {
    fn fresh_like(&self) -> Self {
        TdSub { d: AnyTD::new(self.scale, self.delta, self.backlog), scale: self.scale, delta: self.delta, backlog: self.backlog }
    }
    fn deep_clone(&self) -> Self {
        TdSub { d: self.d.clone(), scale: self.scale, delta: self.delta, backlog: self.backlog }
    }
    fn apply(&mut self, op: &GenOp) -> (Obs, bool, bool) {
        let x = if op.x.is_finite() { op.x } else { 0.0 };
        match op.kind % 8 {
            0 | 1 => {
                self.d.insert(x);
                (vec![], true, false)
            }
            2 => {
                let w = [0.5, 1.0, 2.0, 1e-3, 1e3, 7.0][(op.b % 6) as usize];
                self.d.insert_weighted(x, w);
                (vec![], true, false)
            }
            3 => {
                self.d.insert_weighted(x, 0.0);
                (vec![], false, false)
            }
            4 => (vec![self.d.quantile(op.b as f64 / 65535.0).to_bits()], false, false),
            5 => (vec![self.d.cdf(x).to_bits()], false, false),
            _ => {
                // block of inserts (long histories: n-dependent compression of K2/K3)
                let n = 1 + (op.b as usize % 3000);
                let mut g = stat::SplitMix64(op.a as u64);
                for _ in 0..n {
                    self.d.insert(x + 100.0 * g.f64());
                }
                (vec![], true, false)
            }
        }
    }
    fn observe(&self) -> Obs {
        let d = &self.d;
        let mut o = vec![d.is_empty() as u64, d.count().to_bits(), d.sum().to_bits(), d.min().to_bits(), d.max().to_bits(), d.n_centroids() as u64];
        for i in 0..=10 {
            o.push(d.quantile(i as f64 / 10.0).to_bits());
        }
        for x in [-1.0, 0.0, 0.5, 10.0, 50.0, 1e3] {
            o.push(d.cdf(x).to_bits());
        }
        // NaN payloads: normalise
        for w in o.iter_mut() {
            if f64::from_bits(*w).is_nan() {
                *w = f64::NAN.to_bits();
            }
        }
        o
    }
    fn clear(&mut self) {
        self.d.clear()
    }
    fn is_empty(&self) -> Option<bool> {
        Some(self.d.is_empty())
    }
}

// ------------------------------------------------------------------ Reservoir
struct ResSub {
    r: ReservoirSampling<u64, ScriptRng>,
    h: RngHandle,
    k: usize,
    next: u64,
}

impl Subject for ResSub {
    fn fresh_like(&self) -> Self {
        let (rng, h) = ScriptRng::from_state(self.h.borrow().clone());
        ResSub { r: ReservoirSampling::new(self.k, rng), h, k: self.k, next: self.next }
    }
    fn deep_clone(&self) -> Self {
        let r = self.r.clone();
        let h = take_last_clone().expect("reservoir clone must clone its RNG");
        ResSub { r, h, k: self.k, next: self.next }
    }
    fn apply(&mut self, op: &GenOp) -> (Obs, bool, bool) {
        let n = if op.kind % 3 == 0 { 1 + (op.b as usize % (60 * self.k.min(50) + 1)) } else { 1 };
        for _ in 0..n {
            self.r.add(self.next);
            self.next += 1;
        }
        (vec![], true, false)
    }
    fn observe(&self) -> Obs {
        let mut o = vec![self.r.i() as u64, self.r.is_empty() as u64, self.r.k() as u64];
        o.extend(self.r.reservoir().iter().copied());
        o
    }
    fn clear(&mut self) {
        self.r.clear()
    }
    fn is_empty(&self) -> Option<bool> {
        Some(self.r.is_empty())
    }
}

// ------------------------------------------------------------------ CMSHeap
struct HeapSub {
    h: CMSHeap<u64>,
    k: usize,
    w: usize,
    d: usize,
    alphabet: u16,
}

impl Subject for HeapSub {
    fn fresh_like(&self) -> Self {
        HeapSub { h: CMSHeap::new(self.k, CountMinSketch::with_params(self.w, self.d)), k: self.k, w: self.w, d: self.d, alphabet: self.alphabet }
    }
    fn deep_clone(&self) -> Self {
        HeapSub { h: self.h.clone(), k: self.k, w: self.w, d: self.d, alphabet: self.alphabet }
    }
    fn apply(&mut self, op: &GenOp) -> (Obs, bool, bool) {
        self.h.add((op.a % self.alphabet.max(1)) as u64);
        (vec![], true, false)
    }
    fn observe(&self) -> Obs {
        let mut v: Vec<u64> = self.h.iter().collect();
        v.sort_unstable();
        v.push(self.h.is_empty() as u64);
        v.push(self.h.k() as u64);
        v
    }
    fn clear(&mut self) {
        self.h.clear()
    }
    fn is_empty(&self) -> Option<bool> {
        Some(self.h.is_empty())
    }
}

// ------------------------------------------------------------------ LossyCounter
struct LossySub {
    l: LossyCounter<u64>,
    width: usize,
    alphabet: u16,
}

impl Subject for LossySub {
    fn fresh_like(&self) -> Self {
        LossySub { l: LossyCounter::with_width(self.width), width: self.width, alphabet: self.alphabet }
    }
    fn deep_clone(&self) -> Self {
        LossySub { l: self.l.clone(), width: self.width, alphabet: self.alphabet }
    }
    fn apply(&mut self, op: &GenOp) -> (Obs, bool, bool) {
        let r = self.l.add((op.a % self.alphabet.max(1)) as u64);
        (vec![r as u64], true, false)
    }
    fn observe(&self) -> Obs {
        let mut o = vec![self.l.n() as u64, self.l.width() as u64, self.l.epsilon().to_bits()];
        for s in [0.0, 0.1, 0.5] {
            let mut v: Vec<u64> = self.l.query(s).collect();
            v.sort_unstable();
            o.push(v.len() as u64);
            o.extend(v);
        }
        o
    }
    fn clear(&mut self) {
        self.l.clear()
    }
    fn is_empty(&self) -> Option<bool> {
        None
    }
}

// ------------------------------------------------------------------ the generic oracle

struct Outcome {
    failed_ops: u32,
    pre_mut: u32,
    cont_len: u32,
}

fn first_diff(a: &Obs, b: &Obs) -> String {
    if a.len() != b.len() {
        return format!("observation vectors differ in length ({} vs {})", a.len(), b.len());
    }
    match (0..a.len()).find(|&i| a[i] != b[i]) {
        Some(i) => format!("observation #{}: {} (as f64 {:e}) vs {} (as f64 {:e})", i, a[i], f64::from_bits(a[i]), b[i], f64::from_bits(b[i])),
        None => "no difference".into(),
    }
}

fn exercise<S: Subject>(mut s: S, kind: &str, pre: &[GenOp], cont: &[GenOp]) -> Result<Outcome, (String, String)> {
    let mut out = Outcome { failed_ops: 0, pre_mut: 0, cont_len: cont.len() as u32 };
    // is_empty on creation
    if s.is_empty() == Some(false) {
        return Err((format!("{}:fresh-not-empty", kind), "is_empty() = false right after construction".into()));
    }
    let mut added = false;
    for (i, op) in pre.iter().enumerate() {
        let (_, a, f) = s.apply(op);
        added |= a;
        if a {
            out.pre_mut += 1;
        }
        if f {
            out.failed_ops += 1;
        }
        if let Some(e) = s.is_empty() {
            let want = s.model_empty_override().unwrap_or(!added);
            if e != want {
                return Err((format!("{}:is_empty-wrong", kind), format!("pre-history step {} ({:?}): is_empty() = {} but something was {}added since creation", i, op, e, if added { "" } else { "not " })));
            }
        }
    }
    // ---- clone independence
    let c1 = s.deep_clone();
    let c2 = s.deep_clone();
    let snap = s.observe();
    if c1.observe() != snap {
        return Err((format!("{}:clone-differs-at-clone-time", kind), format!("clone answers differently right after cloning: {}", first_diff(&snap, &c1.observe()))));
    }
    {
        // mutate the original, the clone must not move
        let mut orig = s.deep_clone();
        let c = orig.deep_clone();
        for op in cont {
            orig.apply(op);
        }
        orig.clear();
        if c.observe() != snap {
            return Err((format!("{}:clone-affected-by-original", kind), format!("mutating (and clearing) the original changed the clone: {}", first_diff(&snap, &c.observe()))));
        }
    }
    {
        // mutate the clone, the original must not move
        let mut c = c2;
        for op in cont {
            c.apply(op);
        }
        c.clear();
        if s.observe() != snap {
            return Err((format!("{}:original-affected-by-clone", kind), format!("mutating (and clearing) the clone changed the original: {}", first_diff(&snap, &s.observe()))));
        }
    }
    drop(c1);
    // ---- clear == fresh
    s.clear();
    let mut f = s.fresh_like();
    if s.is_empty() == Some(false) {
        return Err((format!("{}:not-empty-after-clear", kind), "is_empty() = false right after clear()".into()));
    }
    let (os, of) = (s.observe(), f.observe());
    if os != of {
        return Err((format!("{}:cleared!=fresh", kind), format!("right after clear() the structure differs from a fresh one: {} (cleared vs fresh)", first_diff(&os, &of))));
    }
    let mut added = false;
    for (i, op) in cont.iter().enumerate() {
        let (rs, a, _) = s.apply(op);
        let (rf, _, _) = f.apply(op);
        added |= a;
        if rs != rf {
            return Err((format!("{}:cleared!=fresh:op-result", kind), format!("continuation step {} ({:?}): result {:?} on the cleared structure but {:?} on a fresh one", i, op, rs, rf)));
        }
        if let Some(e) = s.is_empty() {
            let want = s.model_empty_override().unwrap_or(!added);
            if e != want {
                return Err((format!("{}:is_empty-wrong", kind), format!("continuation step {} after clear ({:?}): is_empty() = {}", i, op, e)));
            }
        }
        if i % 8 == 7 || i + 1 == cont.len() {
            let (os, of) = (s.observe(), f.observe());
            if os != of {
                return Err((
                    format!("{}:cleared!=fresh:continuation", kind),
                    format!("after {} identical operations the cleared structure differs from a fresh one: {} (cleared vs fresh)", i + 1, first_diff(&os, &of)),
                ));
            }
        }
    }
    Ok(out)
}

pub struct C19;

impl Check for C19 {
    type Case = Case;
    fn name(&self) -> &'static str {
        "clear_clone"
    }
    fn eval(&self, c: &Case) -> Verdict {
        let kind = c.cfg.kind();
        let r = match &c.cfg {
            Cfg::Filter { cfg, hk, rng, rng2, universe } => {
                let uni: Vec<u64> = universe.iter().map(|k| k.materialise(cfg)).collect();
                let mut probe = uni.clone();
                let mut g = stat::SplitMix64(11);
                for _ in 0..50 {
                    probe.push(g.next());
                }
                exercise(FSub { cfg: *cfg, hk: *hk, rng2: rng2.clone(), uni, probe, f: AnyFilter::new(cfg, *hk, rng) }, kind, &c.pre, &c.cont)
            }
            Cfg::Cms { w, d, hk } => exercise(CmsSub { s: CountMinSketch::with_params_and_hasher(*w, *d, GenBH(*hk)), w: *w, d: *d, hk: *hk }, kind, &c.pre, &c.cont),
            Cfg::Hll { b, hk } => exercise(HllSub { s: HyperLogLog::with_hash(*b, GenBH(*hk)), b: *b, hk: *hk }, kind, &c.pre, &c.cont),
            Cfg::TDigest { scale, delta, backlog } => exercise(TdSub { d: AnyTD::new(*scale, *delta, *backlog), scale: *scale, delta: *delta, backlog: *backlog }, kind, &c.pre, &c.cont),
            Cfg::Reservoir { k, rng } => {
                let (r, h) = ScriptRng::new(rng.script.clone(), rng.tail);
                exercise(ResSub { r: ReservoirSampling::new(*k, r), h, k: *k, next: 0 }, kind, &c.pre, &c.cont)
            }
            Cfg::CmsHeap { k, w, d, alphabet } => exercise(HeapSub { h: CMSHeap::new(*k, CountMinSketch::with_params(*w, *d)), k: *k, w: *w, d: *d, alphabet: *alphabet }, kind, &c.pre, &c.cont),
            Cfg::Lossy { width, alphabet } => exercise(LossySub { l: LossyCounter::with_width(*width), width: *width, alphabet: *alphabet }, kind, &c.pre, &c.cont),
        };
        match r {
            Err((sig, msg)) => fail(sig, format!("{} [{}]", msg, kind)),
            Ok(o) => {
                let nontrivial = (o.pre_mut >= 30 || o.failed_ops > 0) && o.cont_len >= 20;
                Verdict::Pass(
                    Info::new(nontrivial, hash_json(c))
                        .class(kind)
                        .class_if(o.failed_ops > 0, "pre_history_with_failed_op")
                        .class_if(o.pre_mut >= 30, "long_pre_history")
                        .inner((c.pre.len() + 3 * c.cont.len()) as u64),
                )
            }
        }
    }
}

fn op_strategy() -> impl Strategy<Value = GenOp> {
    (any::<u8>(), prop_oneof![0u16..16, any::<u16>()], any::<u16>(), prop_oneof![(0i32..6).prop_map(|i| i as f64), -50.0f64..1000.0, Just(0.1)])
        .prop_map(|(kind, a, b, x)| GenOp { kind, a, b, x })
}

fn cfg_strategy() -> impl Strategy<Value = Cfg> {
    prop_oneof![
        6 => prop_oneof![(1usize..=64, 1usize..=6).prop_map(|(m, k)| FCfg::Bloom { m, k }), cuckoo_cfg_small(), cuckoo_cfg_small(), quotient_cfg_small(), quotient_cfg_small()]
            .prop_flat_map(|cfg| (Just(cfg), hkind_for(&cfg), rng_spec(), rng_spec(), prop::collection::vec(key_spec(), 1..24)))
            .prop_map(|(cfg, hk, rng, rng2, universe)| Cfg::Filter { cfg, hk, rng, rng2, universe }),
        2 => (1usize..=16, 1usize..=4, hkind_any()).prop_map(|(w, d, hk)| Cfg::Cms { w, d, hk }),
        2 => (4usize..=10, hkind_any()).prop_map(|(b, hk)| Cfg::Hll { b, hk }),
        8 => (scale(), crate::props::c15::delta_strategy(), crate::props::c15::backlog_strategy()).prop_map(|(scale, delta, backlog)| Cfg::TDigest { scale, delta, backlog }),
        2 => (prop_oneof![12 => 1usize..=12, 1 => prop_oneof![Just(usize::MAX), Just(1usize << 62), Just(1000usize)]], rng_spec()).prop_map(|(k, rng)| Cfg::Reservoir { k, rng }),
        2 => (prop_oneof![12 => 1usize..=6, 1 => prop_oneof![Just(usize::MAX), Just(1usize << 62), Just(1000usize)]], 1usize..=16, 1usize..=3, 1u16..40).prop_map(|(k, w, d, alphabet)| Cfg::CmsHeap { k, w, d, alphabet }),
        2 => (prop_oneof![12 => 1usize..=20, 1 => prop_oneof![Just(usize::MAX), Just(1usize << 62), Just(1000usize)]], 1u16..60).prop_map(|(width, alphabet)| Cfg::Lossy { width, alphabet }),
    ]
}

fn strategy(tier: Tier) -> BoxedStrategy<Case> {
    let pmax = tier.pick(120usize, 400usize);
    let cmax = tier.pick(60usize, 160usize);
    (cfg_strategy(), prop::collection::vec(op_strategy(), 0..pmax), prop::collection::vec(op_strategy(), 0..cmax))
        .prop_map(|(cfg, pre, cont)| Case { cfg, pre, cont })
        .boxed()
}

pub fn strategy_pub(tier: Tier) -> BoxedStrategy<Case> {
    strategy(tier)
}

pub fn checks() -> Vec<Box<dyn DynCheck>> {
    vec![Box::new(C19)]
}

pub fn run(ctx: &Ctx) {
    ctx.set_rule("generated: one of the nine structures (TDigest with each of K0..K3) x configuration x pre-history (generic ops interpreted per structure: inserts/adds, deletes, unions/merges, reads, blocks of up to 3000 inserts) x continuation. Oracle: clone answers identically at clone time, is unaffected by mutating+clearing the original and vice versa; after clear() all observations equal those of a new structure of the same configuration (RNG-bearing ones: the fresh one continues from the cleared one's RNG state), and under the identical continuation every op result and every observation agree (T-Digest reads bit-exact); is_empty() true exactly when nothing was added since creation/clear (cuckoo: iff len()==0). Non-trivial: pre-history with >= 30 mutating ops or a failed op, and a continuation of >= 20 ops. Distinct = hash of the case.");
    ctx.assume("Bloom configurations use k >= 1 (with k = 0 an insert sets no bit and is_empty() cannot notice it)");
    ctx.run_regressions(&[&C19]);
    let t = ctx.tier;
    ctx.run_random(&C19, t.pick(8_000, 120_000), move || strategy(t));
    for k in ["bloom", "cuckoo", "quotient", "cms", "hll", "tdigest_k0", "tdigest_k1", "tdigest_k2", "tdigest_k3", "reservoir", "cmsheap", "lossycounter"] {
        ctx.require_class("clear_clone", k, 0.02);
    }
    ctx.require_class("clear_clone", "pre_history_with_failed_op", 0.05);
}
