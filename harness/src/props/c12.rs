//! C12 — a failed filter insert or union leaves the filter unchanged.
use crate::engine::*;
use crate::support::filters::*;
use crate::support::hashers::HKind;
use proptest::prelude::*;
use serde::{Deserialize, Serialize};

#[derive(Clone, Debug, Serialize, Deserialize)]
pub enum Op {
    Insert(u16),
    Delete(u16),
    Union(Vec<u16>),
    /// like Union, but the first `.1` successfully inserted keys are deleted again from the operand
    /// before the union (cuckoo: leaves holes in its buckets)
    UnionDel(Vec<u16>, u8),
}

#[derive(Clone, Debug, Serialize, Deserialize)]
pub struct Case {
    pub cfg: FCfg,
    pub hk: HKind,
    pub rng: RngSpec,
    pub rng2: RngSpec,
    pub universe: Vec<KeySpec>,
    pub fresh_seed: u64,
    pub ops: Vec<Op>,
}

#[derive(Clone, PartialEq, Eq, Debug)]
pub struct Snapshot {
    pub len: usize,
    pub is_empty: bool,
    pub queries: Vec<bool>,
    /// cuckoo: how many times each universe key can still be deleted (each on its own clone)
    pub deletable: Vec<u32>,
}

pub fn snapshot(f: &AnyFilter, probe: &[u64], uni: &[u64], with_deletes: bool) -> Snapshot {
    let queries = probe.iter().map(|&k| f.query(k)).collect();
    let mut deletable = vec![];
    if with_deletes {
        if let AnyFilter::Cuckoo(..) = f {
            for &k in uni {
                let mut g = f.deep_clone();
                let mut n = 0u32;
                while g.delete(k).unwrap() {
                    n += 1;
                    if n as usize > f.len() + 2 {
                        break;
                    }
                }
                deletable.push(n);
            }
        }
    }
    Snapshot { len: f.len(), is_empty: f.is_empty(), queries, deletable }
}

pub fn diff(a: &Snapshot, b: &Snapshot, probe: &[u64], uni: &[u64]) -> String {
    if a.len != b.len {
        return format!("len() {} -> {}", a.len, b.len);
    }
    if a.is_empty != b.is_empty {
        return format!("is_empty() {} -> {}", a.is_empty, b.is_empty);
    }
    for i in 0..a.queries.len() {
        if a.queries[i] != b.queries[i] {
            return format!("query({}) {} -> {}", probe[i], a.queries[i], b.queries[i]);
        }
    }
    for i in 0..a.deletable.len().min(b.deletable.len()) {
        if a.deletable[i] != b.deletable[i] {
            return format!("element {} could be deleted {} time(s) before and {} after", uni[i], a.deletable[i], b.deletable[i]);
        }
    }
    "no difference".into()
}

fn sig_part(d: &str) -> &'static str {
    if d.starts_with("len") {
        "len"
    } else if d.starts_with("is_empty") {
        "is_empty"
    } else if d.starts_with("query") {
        "query"
    } else {
        "deletable"
    }
}

fn build_other(c: &Case, uni: &[u64], keys: &[u16], del: u8) -> AnyFilter {
    let mut other = AnyFilter::new(&c.cfg, c.hk, &c.rng2);
    let mut inserted = vec![];
    for i in keys {
        let k = uni[idx(*i, uni.len())];
        if other.insert(k).is_ok() {
            inserted.push(k);
        }
    }
    for &k in inserted.iter().take(del as usize) {
        let _ = other.delete(k);
    }
    other
}

fn apply(f: &mut AnyFilter, c: &Case, uni: &[u64], op: &Op) -> (Option<Result<bool, ()>>, Option<bool>, Option<Result<(), ()>>) {
    match op {
        Op::Insert(i) => (Some(f.insert(uni[idx(*i, uni.len())])), None, None),
        Op::Delete(i) => (None, f.delete(uni[idx(*i, uni.len())]), None),
        Op::Union(keys) => {
            let other = build_other(c, uni, keys, 0);
            (None, None, Some(f.union(&other)))
        }
        Op::UnionDel(keys, del) => {
            let other = build_other(c, uni, keys, *del);
            (None, None, Some(f.union(&other)))
        }
    }
}

pub struct C12;

impl Check for C12 {
    type Case = Case;
    fn name(&self) -> &'static str {
        "failing_calls"
    }
    fn eval(&self, c: &Case) -> Verdict {
        let kind = c.cfg.kind();
        let uni: Vec<u64> = c.universe.iter().map(|k| k.materialise(&c.cfg)).collect();
        let mut probe = uni.clone();
        let mut g = stat::SplitMix64(c.fresh_seed);
        for _ in 0..200 {
            probe.push(g.next());
        }
        let mut f = AnyFilter::new(&c.cfg, c.hk, &c.rng);
        let (mut n_fail_ins, mut n_fail_union, mut n_fail_union_partial, mut n_fail_after_evict, mut conts) = (0u32, 0u32, 0u32, 0u32, 0u32);
        let cap = c.cfg.capacity();
        for (step, op) in c.ops.iter().enumerate() {
            let pre = f.deep_clone();
            let pre_snap_needed = true;
            let drawn_before = f.drawn();
            let mut failed = false;
            let mut opname = "";
            let mut other_changed: Option<String> = None;
            let partial;
            match op {
                Op::Insert(i) => {
                    if f.insert(uni[idx(*i, uni.len())]).is_err() {
                        failed = true;
                        opname = "insert";
                        n_fail_ins += 1;
                        if f.drawn() > drawn_before {
                            n_fail_after_evict += 1;
                        }
                    }
                }
                Op::Delete(i) => {
                    let _ = f.delete(uni[idx(*i, uni.len())]);
                }
                Op::Union(..) | Op::UnionDel(..) => {
                    let (keys, del) = match op {
                        Op::Union(k) => (k, 0u8),
                        Op::UnionDel(k, d) => (k, *d),
                        _ => unreachable!(),
                    };
                    let other = build_other(c, &uni, keys, del);
                    let osnap = snapshot(&other, &probe, &uni, true);
                    let res = f.union(&other);
                    let osnap2 = snapshot(&other, &probe, &uni, true);
                    if osnap != osnap2 {
                        other_changed = Some(diff(&osnap, &osnap2, &probe, &uni));
                    }
                    if res.is_err() {
                        failed = true;
                        opname = "union";
                        n_fail_union += 1;
                        partial = pre.len() < cap && other.len() >= 2;
                        if partial {
                            n_fail_union_partial += 1;
                        }
                    }
                }
            }
            if let Some(d) = other_changed {
                return fail(format!("{}:union-modifies-other:{}", kind, sig_part(&d)), format!("step {}: union changed its argument: {}", step, d));
            }
            if failed && pre_snap_needed {
                let a = snapshot(&pre, &probe, &uni, true);
                let b = snapshot(&f, &probe, &uni, true);
                if a != b {
                    let d = diff(&a, &b, &probe, &uni);
                    return fail(
                        format!("{}:failed-{}-changes-{}", kind, opname, sig_part(&d)),
                        format!("step {}: {} returned Err but the observable state changed: {} (cfg={:?}, hasher={:?}, len before {})", step, opname, d, c.cfg, c.hk, pre.len()),
                    );
                }
                // continuation differential: the filter after the failed call vs. the clone taken
                // before it, with aligned RNG streams
                if conts < 3 {
                    conts += 1;
                    let mut x = f.deep_clone();
                    let mut y = pre;
                    y.sync_rng_from(&x);
                    let end = (step + 1 + 40).min(c.ops.len());
                    for (j, op2) in c.ops[step + 1..end].iter().enumerate() {
                        let rx = apply(&mut x, c, &uni, op2);
                        let ry = apply(&mut y, c, &uni, op2);
                        if rx != ry {
                            return fail(
                                format!("{}:continuation-after-failed-{}-diverges", kind, opname),
                                format!("step {}: {} failed; {} operations later {:?} returned {:?} on the filter but {:?} on a clone taken before the failed call (same RNG stream)", step, opname, j + 1, op2, rx, ry),
                            );
                        }
                        let sx = snapshot(&x, &uni, &uni, false);
                        let sy = snapshot(&y, &uni, &uni, false);
                        if sx != sy {
                            let d = diff(&sy, &sx, &uni, &uni);
                            return fail(
                                format!("{}:continuation-after-failed-{}-diverges", kind, opname),
                                format!("step {}: {} failed; {} operations later the states differ: {}", step, opname, j + 1, d),
                            );
                        }
                    }
                    let sx = snapshot(&x, &probe, &uni, true);
                    let sy = snapshot(&y, &probe, &uni, true);
                    if sx != sy {
                        let d = diff(&sy, &sx, &probe, &uni);
                        return fail(format!("{}:continuation-after-failed-{}-diverges", kind, opname), format!("step {}: after the continuation: {}", step, d));
                    }
                }
            }
        }
        let nontrivial = n_fail_ins + n_fail_union > 0;
        let mut info = Info::new(nontrivial, hash_json(c))
            .class(kind)
            .class_if(n_fail_ins > 0, "failed_insert")
            .class_if(n_fail_after_evict > 0, "failed_insert_after_evictions")
            .class_if(n_fail_union > 0, "failed_union")
            .class_if(n_fail_union_partial > 0, "failed_union_partial_transfer");
        info.inner_evals = (n_fail_ins + n_fail_union) as u64;
        Verdict::Pass(info)
    }
}

fn strategy(tier: Tier) -> BoxedStrategy<Case> {
    let maxops = tier.pick(60usize, 200usize);
    (
        prop_oneof![3 => cuckoo_cfg_small(), 1 => cuckoo_cfg(), 3 => quotient_cfg_small(), 1 => quotient_cfg()],
        hkind_any(),
        rng_spec(),
        rng_spec(),
        prop::collection::vec(key_spec(), 1..40),
        any::<u64>(),
        prop::collection::vec(
            prop_oneof![
                8 => any::<u16>().prop_map(Op::Insert),
                1 => any::<u16>().prop_map(Op::Delete),
                2 => prop::collection::vec(any::<u16>(), 0..16).prop_map(Op::Union),
                1 => (prop::collection::vec(any::<u16>(), 0..16), 1u8..8).prop_map(|(k, d)| Op::UnionDel(k, d)),
            ],
            0..maxops,
        ),
    )
        .prop_map(|(cfg, hk, rng, rng2, universe, fresh_seed, ops)| Case { cfg, hk, rng, rng2, universe, fresh_seed, ops })
        .boxed()
}

pub fn checks() -> Vec<Box<dyn DynCheck>> {
    vec![Box::new(C12), Box::new(super::giant::Giant)]
}

pub fn run(ctx: &Ctx) {
    ctx.set_rule("generated: cuckoo / quotient configurations biased to small tables x hasher families x scripted eviction RNG x colliding universe x histories of insert/delete/union (other operand built from a generated key list). Around EVERY call that returns Err: snapshot (len, is_empty, query over the universe + 200 fresh keys, cuckoo: how often each element can still be deleted, each on its own clone) must be identical before and after; the union argument's snapshot must be unchanged (also on Ok); for the first 3 failures of a history the next <=40 operations are applied to the filter and to a clone taken before the failed call with aligned RNG streams and must give identical results and states. Non-trivial: at least one call returned Err. evaluations = generated histories + failing calls checked. Distinct = hash of the case. Class failed_union_partial_transfer is a proxy (self had a free slot and the other operand >= 2 elements). giant_tables: two failing unions of cuckoo filters with 2^15 buckets of 4 slots (60000 + 75000 and 67000 + 67000 elements, 24-bit fingerprints): len and the answers to 100 000 probes unchanged, operand unchanged.");
    ctx.assume("observable state = len, is_empty, query over universe + 200 fresh keys, per-element deletable count (cuckoo)");
    ctx.run_regressions(&[&C12]);
    let t = ctx.tier;
    ctx.run_random(&C12, t.pick(60_000, 1_000_000), move || strategy(t));
    // failing unions that move and roll back tens of thousands of fingerprints
    ctx.run_fixed(&super::giant::Giant, super::giant::failed_union_cases(ctx.seed));
    ctx.require_class("failing_calls", "failed_insert", 0.2);
    ctx.require_class("failing_calls", "failed_union", 0.1);
    ctx.require_class("failing_calls", "failed_insert_after_evictions", 0.05);
    ctx.require_class("failing_calls", "failed_union_partial_transfer", 0.05);
    if ctx.tier == Tier::Thorough && !ctx.failed() {
        crate::engine::fuzz::run_filter_ops(ctx, 0, 160_000);
    }
}
