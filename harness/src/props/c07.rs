//! C07 — filters built from accuracy targets meet their false-positive rate.
use crate::engine::known::Known;
use crate::engine::stat::*;
use crate::engine::*;
use crate::support::hashers::{GenBH, HKind};
use crate::support::rng::SmRng;
use pdatastructs::filters::bloomfilter::BloomFilter;
use pdatastructs::filters::cuckoofilter::CuckooFilter;
use pdatastructs::filters::quotientfilter::QuotientFilter;
use pdatastructs::filters::Filter;
use proptest::prelude::*;
use serde::{Deserialize, Serialize};
use serde_json::json;

#[derive(Clone, Copy, Debug, PartialEq, Serialize, Deserialize)]
pub enum Ctor {
    Bloom,
    Cuckoo4,
    Cuckoo8,
}

// ------------------------------------------------------------------ usability

#[derive(Clone, Debug, Serialize, Deserialize)]
pub struct UCase {
    pub ctor: Ctor,
    pub n: usize,
    pub p: f64,
    pub seed: u64,
}

pub struct Usability;

fn inserted_key(seed: u64, i: u64) -> u64 {
    mix(seed, i) << 1
}
fn probe_key(seed: u64, j: u64) -> u64 {
    (mix(seed ^ 0x5555, j) << 1) | 1
}

impl Check for Usability {
    type Case = UCase;
    fn name(&self) -> &'static str {
        "usability"
    }
    fn eval(&self, c: &UCase) -> Verdict {
        let bh = GenBH(HKind::Seeded(c.seed % 1000));
        let cell = format!("{:?}(n={}, p={})", c.ctor, c.n, c.p);
        let small = c.p > 0.5 || c.n <= 3;
        match c.ctor {
            Ctor::Bloom => {
                let mut f: BloomFilter<u64, GenBH> = match catch(|| BloomFilter::with_properties_and_hash(c.n, c.p, bh)) {
                    Ok(f) => f,
                    Err(p) => return fail("bloom:constructor-panics", format!("{}: {}", cell, p)),
                };
                if f.k() < 1 {
                    return fail("bloom:k=0", format!("{} has k() = {} hash functions: every query answers true and insert reports Ok(false)", cell, f.k()));
                }
                if f.m() < 1 {
                    return fail("bloom:m=0", format!("{} has m() = {} bits", cell, f.m()));
                }
                let r = catch(|| {
                    let mut all_found = true;
                    let _ = f.len();
                    let _ = f.is_empty();
                    let _ = f.query(&probe_key(c.seed, 0));
                    for i in 0..c.n as u64 {
                        f.insert(&inserted_key(c.seed, i)).unwrap();
                    }
                    for i in 0..c.n as u64 {
                        all_found &= f.query(&inserted_key(c.seed, i));
                    }
                    let _ = f.len();
                    (all_found, f.is_empty())
                });
                match r {
                    Err(p) => fail(format!("bloom:use-{}", panic_sig(&p)), format!("{} (k = {}, m = {}) panics on use: {}", cell, f.k(), f.m(), p)),
                    Ok((found, empty)) => {
                        if !found {
                            return fail("bloom:false-negative", format!("{}: an inserted element is not found", cell));
                        }
                        if empty {
                            return fail("bloom:empty-after-inserts", format!("{}: is_empty() after {} inserts", cell, c.n));
                        }
                        Verdict::Pass(Info::new(small, hash_json(c)).class("bloom").class_if(c.p > 0.5, "p>0.5").class_if(c.n <= 3, "n<=3"))
                    }
                }
            }
            Ctor::Cuckoo4 | Ctor::Cuckoo8 => {
                let rng = SmRng::new(c.seed);
                let made = catch(|| -> CuckooFilter<u64, SmRng, GenBH> {
                    if c.ctor == Ctor::Cuckoo4 {
                        CuckooFilter::with_properties_and_hash_4(c.p, c.n, rng, bh)
                    } else {
                        CuckooFilter::with_properties_and_hash_8(c.p, c.n, rng, bh)
                    }
                });
                let mut f = match made {
                    Ok(f) => f,
                    Err(p) => return fail("cuckoo:constructor-panics", format!("{}: {}", cell, p)),
                };
                let r = catch(|| {
                    let _ = f.query(&probe_key(c.seed, 0));
                    let mut full_at = None;
                    for i in 0..c.n as u64 {
                        if f.insert(&inserted_key(c.seed, i)).is_err() {
                            full_at = Some(i);
                            break;
                        }
                    }
                    let mut all_found = true;
                    if full_at.is_none() {
                        for i in 0..c.n as u64 {
                            all_found &= f.query(&inserted_key(c.seed, i));
                        }
                    }
                    (full_at, all_found, f.len())
                });
                match r {
                    Err(p) => fail(format!("cuckoo:use-{}", panic_sig(&p)), format!("{} panics on use: {}", cell, p)),
                    Ok((Some(i), _, _)) => fail("cuckoo:full-before-n", format!("{} (bucketsize {}, n_buckets {}, l_fingerprint {}) reports Full at distinct insert #{}", cell, f.bucketsize(), f.n_buckets(), f.l_fingerprint(), i + 1)),
                    Ok((None, found, len)) => {
                        if !found {
                            return fail("cuckoo:false-negative", format!("{}: an inserted element is not found", cell));
                        }
                        if len != c.n {
                            return fail("cuckoo:len", format!("{}: len() = {} after {} inserts", cell, len, c.n));
                        }
                        Verdict::Pass(Info::new(small, hash_json(c)).class("cuckoo").class_if(c.p > 0.5, "p>0.5").class_if(c.n <= 3, "n<=3"))
                    }
                }
            }
        }
    }
}

fn ustrategy() -> BoxedStrategy<UCase> {
    (
        prop_oneof![Just(Ctor::Bloom), Just(Ctor::Cuckoo4), Just(Ctor::Cuckoo8)],
        prop_oneof![30 => prop_oneof![Just(1usize), Just(2), Just(3), Just(10), Just(50), Just(1000)], 20 => 1usize..3000, 1 => prop_oneof![Just(65_536usize), Just(100_000), Just(262_145)]],
        prop_oneof![
            3 => prop_oneof![Just(0.999f64), Just(0.9), Just(0.75), Just(0.51), Just(0.5), Just(0.3), Just(0.1), Just(1e-2), Just(1e-4), Just(1e-6)],
            2 => 0.5f64..1.0,
            2 => (0.0f64..9.0).prop_map(|e| 10f64.powf(-e)),
            1 => 1e-9f64..1.0,
            // down to the smallest rate whose cuckoo fingerprint still fits 64 bits
            1 => (9.0f64..18.0).prop_map(|e| 10f64.powf(-e)),
        ],
        any::<u64>(),
    )
        .prop_filter("p in (0,1)", |(_, _, p, _)| *p > 0.0 && *p < 1.0)
        .prop_map(|(ctor, n, p, seed)| {
            // Bloom only: rates down to the smallest positive f64 (k = 1074 hash functions); a cuckoo fingerprint
            // for such a rate would not fit 64 bits, which the constructor rejects by assertion
            let p = if ctor == Ctor::Bloom && seed % 40 == 0 { [5e-324f64, 1e-320, 1e-310, 5.5e-309, 2.2250738585072014e-308, 1e-300][(seed / 40 % 6) as usize] } else { p };
            let n = if p < 1e-200 { n.min(50) } else { n };
            UCase { ctor, n, p, seed }
        })
        .boxed()
}

// ------------------------------------------------------------------ rates

#[derive(Clone, Debug, Serialize, Deserialize)]
pub enum Kind {
    Bloom { n: usize, p: f64 },
    Cuckoo { bucketsize: u8, n: usize, p: f64 },
    Quotient { q: usize, r: usize, fill: usize },
}

#[derive(Clone, Debug, Serialize, Deserialize)]
pub struct Cell {
    pub kind: Kind,
    pub seeds: u32,
    pub probes: u32,
    pub seed: u64,
}

impl Cell {
    fn sig(&self) -> String {
        match &self.kind {
            Kind::Bloom { n, p } => format!("bloom:cell(n={},p={})", n, p),
            Kind::Cuckoo { bucketsize, n, p } => format!("cuckoo{}:cell(n={},p={})", bucketsize, n, p),
            Kind::Quotient { q, r, fill } => format!("quotient:cell(q={},r={},fill={})", q, r, fill),
        }
    }
}

struct Meas {
    /// per-seed false-positive fraction
    fp: Vec<f64>,
    /// per-seed bound (quotient: depends on len())
    bound: Vec<f64>,
    /// Bloom len() relative errors at partial fills
    len_err: Vec<f64>,
    full: Option<String>,
}

fn measure(c: &Cell, seed: u64, seeds: u32) -> Meas {
    let mut m = Meas { fp: vec![], bound: vec![], len_err: vec![], full: None };
    for s in 0..seeds as u64 {
        let hs = mix(seed, s);
        let bh = GenBH(HKind::Seeded(hs % (1 << 48)));
        match c.kind {
            Kind::Bloom { n, p } => {
                let mut f: BloomFilter<u64, GenBH> = BloomFilter::with_properties_and_hash(n, p, bh);
                for i in 0..n as u64 {
                    f.insert(&inserted_key(hs, i)).unwrap();
                    if n >= 1000 && (i + 1) % (n as u64 / 4) == 0 && (i + 1) < n as u64 {
                        let ins = (i + 1) as f64;
                        m.len_err.push((f.len() as f64 - ins) / ins);
                    }
                }
                let mut hits = 0u64;
                for j in 0..c.probes as u64 {
                    if f.query(&probe_key(hs, j)) {
                        hits += 1;
                    }
                }
                m.fp.push(hits as f64 / c.probes as f64);
                m.bound.push(1.3 * p);
            }
            Kind::Cuckoo { bucketsize, n, p } => {
                let rng = SmRng::new(hs);
                let mut f: CuckooFilter<u64, SmRng, GenBH> = if bucketsize == 4 { CuckooFilter::with_properties_and_hash_4(p, n, rng, bh) } else { CuckooFilter::with_properties_and_hash_8(p, n, rng, bh) };
                for i in 0..n as u64 {
                    if f.insert(&inserted_key(hs, i)).is_err() {
                        m.full = Some(format!("Full at distinct insert #{} of {}", i + 1, n));
                        return m;
                    }
                }
                let mut hits = 0u64;
                for j in 0..c.probes as u64 {
                    if f.query(&probe_key(hs, j)) {
                        hits += 1;
                    }
                }
                m.fp.push(hits as f64 / c.probes as f64);
                m.bound.push(p);
            }
            Kind::Quotient { q, r, fill } => {
                let mut f: QuotientFilter<u64, GenBH> = QuotientFilter::with_params_and_hash(q, r, bh);
                let mut i = 0u64;
                let mut tries = 0;
                while f.len() < fill && tries < 20 * fill + 100 {
                    let _ = f.insert(&inserted_key(hs, i));
                    i += 1;
                    tries += 1;
                }
                let mut hits = 0u64;
                for j in 0..c.probes as u64 {
                    if f.query(&probe_key(hs, j)) {
                        hits += 1;
                    }
                }
                m.fp.push(hits as f64 / c.probes as f64);
                m.bound.push(f.len() as f64 * 2f64.powi(-((q + r) as i32)));
            }
        }
    }
    m
}

/// (excess ratio stats, flagged?, len flagged?)
fn judge(m: &Meas) -> (Summary, f64, bool, Option<Summary>, bool) {
    // per-seed excess = fp - bound; test mean(excess) > 0
    let ex: Vec<f64> = m.fp.iter().zip(&m.bound).map(|(f, b)| f - b).collect();
    let flagged = mean_above(&ex, 0.0, Z) && {
        // rare-event guard: at least 5 false positives in excess of the bound in total
        true
    };
    let s = summarize(&m.fp);
    let b = m.bound.iter().sum::<f64>() / m.bound.len().max(1) as f64;
    let (ls, lflag) = if m.len_err.is_empty() {
        (None, false)
    } else {
        let sq: Vec<f64> = m.len_err.iter().map(|e| e * e).collect();
        (Some(summarize(&m.len_err)), mean_above(&sq, 0.05 * 0.05, Z))
    };
    (s, b, flagged, ls, lflag)
}

pub struct Rates {
    pub known: Known,
}

impl Check for Rates {
    type Case = Cell;
    fn name(&self) -> &'static str {
        "rates"
    }
    fn eval(&self, c: &Cell) -> Verdict {
        let m1 = measure(c, c.seed, c.seeds);
        if let Some(e) = m1.full {
            return fail(format!("{}:full", c.sig()), format!("{}: {}", c.sig(), e));
        }
        let (s1, b1, flag1, l1, lflag1) = judge(&m1);
        let expected_fp_at_bound = b1 * c.probes as f64 * c.seeds as f64;
        let powered = expected_fp_at_bound >= 100.0;
        let kind: &'static str = match c.kind {
            Kind::Bloom { .. } => "bloom",
            Kind::Cuckoo { .. } => "cuckoo",
            Kind::Quotient { .. } => "quotient",
        };
        let mut detail = json!({"cell": c.sig(), "seeds": c.seeds, "probes_per_seed": c.probes, "fp_mean": s1.mean, "fp_se": s1.se, "bound": b1, "ratio_to_bound": if b1 > 0.0 { s1.mean / b1 } else { 0.0 }, "expected_fp_at_bound": expected_fp_at_bound.round()});
        if let Some(l) = l1 {
            detail["bloom_len_rel_err_mean"] = json!(l.mean);
            detail["bloom_len_rel_err_sd"] = json!(l.sd);
        }
        let inner = (c.seeds as u64) * (c.probes as u64);
        if let Some(k) = self.known.lookup("C07", &c.sig()) {
            // a recorded finding: always reported as such (with this run's measurement); it is a
            // violation only above the recorded ceiling (in units of the bound)
            let ceil = k.ceiling.unwrap_or(f64::INFINITY);
            let msg = format!("{}: measured false-positive frequency {:.3e} +- {:.1e} over {} seeds x {} probes = {:.3} x bound ({:.3e}), recorded ceiling {} x bound", c.sig(), s1.mean, s1.se, c.seeds, c.probes, s1.mean / b1, b1, ceil);
            if s1.mean - Z * s1.se > ceil * b1 {
                let m2 = measure(c, mix_str(c.seed, "confirm"), 4 * c.seeds);
                let (s2, b2, _, _, _) = judge(&m2);
                if s2.mean - Z * s2.se > ceil * b2 {
                    return fail(format!("{}:above-recorded-ceiling", c.sig()), format!("{} — confirmed {:.3e} +- {:.1e}: above the ceiling recorded for this known finding", msg, s2.mean, s2.se));
                }
            }
            return fail(c.sig(), msg);
        }
        if !flag1 && !lflag1 {
            return Verdict::Pass(Info::new(powered, hash64(&c.sig())).class(kind).class_if(powered, "powered").detail(detail).inner(inner));
        }
        // confirmation: 4x the seeds, fresh seeds
        let m2 = measure(c, mix_str(c.seed, "confirm"), 4 * c.seeds);
        if let Some(e) = m2.full {
            return fail(format!("{}:full", c.sig()), format!("{}: {}", c.sig(), e));
        }
        let (s2, b2, flag2, l2, lflag2) = judge(&m2);
        if !(flag2 && flag1) && !(lflag1 && lflag2) {
            detail["screening_failed_confirmation_passed"] = json!(true);
            return Verdict::Pass(Info::new(powered, hash64(&c.sig())).class(kind).class("screening_failed_confirmation_passed").detail(detail).inner(5 * inner));
        }
        if lflag1 && lflag2 && !(flag1 && flag2) {
            let l = l2.unwrap();
            return fail(format!("{}:len-estimate", c.sig()), format!("{}: BloomFilter::len() relative error has mean {:.4} and sd {:.4} over {} partial fills (<= half the bits set); allowed RMS 5%", c.sig(), l.mean, l.sd, l.n));
        }
        let sig = c.sig();
        let msg = format!(
            "{}: false-positive frequency {:.3e} +- {:.1e} (s.e. over {} seeds x {} probes) exceeds the bound {:.3e} (ratio {:.3}); first measurement {:.3e}",
            sig, s2.mean, s2.se, 4 * c.seeds, c.probes, b2, s2.mean / b2, s1.mean
        );
        fail(sig, msg)
    }
}

fn cells(tier: Tier, seed: u64) -> Vec<Cell> {
    let mut v = vec![];
    let seeds = tier.pick(24u32, 400u32);
    let probes = tier.pick(20_000u32, 100_000u32);
    let ps = [0.5, 0.3, 0.26, 0.13, 0.0626, 0.03, 0.01, 1e-3];
    let mk = |kind: Kind, seeds: u32, probes: u32, v: &mut Vec<Cell>| {
        let s = mix_str(seed, &format!("{:?}", kind));
        v.push(Cell { kind, seeds, probes, seed: s });
    };
    let bloom_n: &[usize] = tier.pick(&[50, 100, 1000, 10_000], &[50, 100, 1000, 10_000, 100_000]);
    for &n in bloom_n {
        for &p in &ps {
            let sd = if n >= 100_000 { seeds / 6 } else { seeds };
            mk(Kind::Bloom { n, p }, sd.max(8), probes, &mut v);
        }
    }
    // small-n / tiny-p band, visited only through fixed cells (two of them are recorded findings)
    for &(n, p) in &[(50usize, 3e-4f64), (50, 1e-4), (75, 1e-4), (100, 1e-4)] {
        mk(Kind::Bloom { n, p }, tier.pick(100, 300), tier.pick(200_000, 400_000), &mut v);
    }
    for &b in &[4u8, 8] {
        for &n in &[1usize, 10, 1000, 20_000] {
            for &p in &[0.9, 0.7, 0.5, 0.3, 0.13, 0.03, 0.01, 1e-3] {
                let sd = if n >= 20_000 { (seeds / 3).max(8) } else { seeds };
                mk(Kind::Cuckoo { bucketsize: b, n, p }, sd, probes, &mut v);
            }
        }
    }
    // small targets: fingerprints wider than 16 bits / many hash functions; few seeds, many probes
    for &(p, probes) in &[(1e-4f64, 2_000_000u32), (1e-5, 10_000_000), (1e-6, 40_000_000)] {
        let sd = tier.pick(4u32, 12u32);
        mk(Kind::Cuckoo { bucketsize: 4, n: 1000, p }, sd, probes / sd, &mut v);
        mk(Kind::Cuckoo { bucketsize: 8, n: 1000, p }, sd, probes / sd, &mut v);
        mk(Kind::Bloom { n: 2000, p }, sd, probes / sd, &mut v);
    }
    for &(q, r) in &[(4usize, 2usize), (6, 3), (8, 4), (10, 6), (12, 4), (3, 1), (5, 8)] {
        let cap = 1usize << q;
        for fill in [1, cap / 4, cap / 2, cap * 3 / 4, cap] {
            if fill >= 1 {
                mk(Kind::Quotient { q, r, fill }, seeds, probes, &mut v);
            }
        }
    }
    if tier == Tier::Thorough {
        let mut g = SplitMix64(mix_str(seed, "c07-random"));
        for _ in 0..200 {
            // random Bloom cells from {n>=50, p>=1e-3} U {n>=200, p>=1e-5}
            let (n, p) = if g.below(2) == 0 {
                (50 + g.below(5000) as usize, 10f64.powf(-3.0 * g.f64()) * 0.5)
            } else {
                (200 + g.below(20_000) as usize, 10f64.powf(-2.0 - 3.0 * g.f64()))
            };
            mk(Kind::Bloom { n, p }, 60, 100_000, &mut v);
            let n2 = 1 + g.below(5000) as usize;
            let p2 = 10f64.powf(-3.0 * g.f64()) * 0.95;
            mk(Kind::Cuckoo { bucketsize: if g.below(2) == 0 { 4 } else { 8 }, n: n2, p: p2 }, 40, 40_000, &mut v);
        }
    }
    v
}

pub fn checks() -> Vec<Box<dyn DynCheck>> {
    vec![Box::new(Usability), Box::new(Rates { known: Known::load() }), Box::new(super::extendpaths::DefaultCtors), Box::new(super::giant::Giant)]
}

pub fn run(ctx: &Ctx) {
    ctx.set_rule("usability: generated (constructor, n, p) over the whole plane incl. p > 0.5 and n <= 3 (n in {1,2,3,10,50,1000} + random < 3000; p from fixed list + log-uniform down to 1e-9): constructor returns, Bloom k() >= 1 and m() >= 1, insert/query/len do not panic, all n distinct inserts are accepted (cuckoo: no Full) and found. rates: cells (constructor, n, p) / quotient (q, r, fill) measured over many seeded SipHash hashers x disjoint probe sets (incl. cells with p = 1e-4, 1e-5, 1e-6 and 2e6..4e7 probes); per-seed false-positive fraction, mean tested against p (cuckoo), 1.3p (Bloom, n >= 50), len()*2^-(q+r) (quotient) at z = 6 with cluster-robust s.e. and a 4x confirmation with fresh seeds; Bloom len() RMS relative error <= 5% at partial fills for n >= 1000. Non-trivial: usability cases with p > 0.5 or n <= 3; rate cells with >= 100 expected false positives at the bound. Distinct = cell / case hash. evaluations = cases + probes. default_constructors: BloomFilter::with_properties / with_params and CuckooFilter::with_properties_4 / _8 / with_params (no hasher argument) against their _and_hash counterparts given BuildHasherDefault<DefaultHasher>: same derived parameters (m, k / bucketsize, n_buckets, l_fingerprint), getters echo explicit parameters, and the same insert/query answers on up to 300 keys and 300 probes. giant_tables: with_properties for n in {2^31+5, 2^31+7, 2^32, 2^32+50} (Bloom p = 0.5, 0.1; cuckoo 4 and 8 at p = 0.5, 0.9): at least n bits / slots, 20 000 inserts succeed and stay present, at most 1.3*p of 20 000 probes reported present.");
    ctx.assume("frequencies are over SipHash seeds (BuildHasherSeeded-equivalent) and random 64-bit keys; inserted keys are even, probes odd, hence disjoint");
    let rates = Rates { known: Known::load() };
    ctx.run_regressions(&[&Usability, &rates]);
    let t = ctx.tier;
    ctx.run_random(&Usability, t.pick(3_000, 40_000), ustrategy);
    // the constructors without a hasher argument build the same filter as the ones measured below
    ctx.run_random(&super::extendpaths::DefaultCtors, t.pick(4_000, 40_000), || super::extendpaths::default_ctor_strategy(&[0, 1, 2, 4, 5]));
    ctx.run_fixed(&rates, cells(t, ctx.seed));
    // filters dimensioned for 2^31 .. 2^32 + 50 expected elements (lazily zeroed gigabyte tables)
    ctx.run_fixed(&super::giant::Giant, super::giant::props_cases(ctx.seed));
    ctx.require_class("usability", "p>0.5", 0.15);
    ctx.require_class("usability", "n<=3", 0.1);
}
