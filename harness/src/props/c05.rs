//! C05 — reservoir sampling is uniform over stream positions.
use crate::engine::stat::*;
use crate::engine::*;
use pdatastructs::reservoirsampling::ReservoirSampling;
use rand::rngs::SmallRng;
use rand::{RngCore, SeedableRng};
use rand_chacha::ChaCha8Rng;
use serde::{Deserialize, Serialize};
use serde_json::json;

#[derive(Clone, Copy, Debug, Serialize, Deserialize, PartialEq, Eq, Hash)]
pub enum RngKind {
    Small,
    ChaCha8,
}

#[derive(Clone, Debug, Serialize, Deserialize)]
pub struct Cell {
    pub k: usize,
    pub n: usize,
    pub trials: u32,
    pub rng: RngKind,
    pub seed: u64,
    /// items fed to the same sampler before a clear() (0 = fresh sampler): after clear() the
    /// sampler must behave like a fresh one, so the same frequencies are required
    #[serde(default)]
    pub prefill: usize,
}

/// class boundaries for the gap regime: (name, start, end) half-open position ranges
fn classes(k: usize, n: usize) -> Vec<(String, usize, usize)> {
    let mut v = vec![("first_k".to_string(), 0, k), ("plain_phase".to_string(), k, (4 * k).min(n))];
    if n > 4 * k {
        v.push(("switch_item".to_string(), 4 * k, 4 * k + 1));
    }
    if n > 4 * k + 1 {
        v.push(("after_switch_k".to_string(), 4 * k + 1, (5 * k + 1).min(n)));
    }
    for d in 0..10 {
        v.push((format!("decile_{}", d), n * d / 10, n * (d + 1) / 10));
    }
    v.push(("last_k".to_string(), n - k, n));
    v.retain(|c| c.2 > c.1);
    v
}

struct Measurement {
    trials: u64,
    /// per position inclusion counts (exact regime only)
    pos_hits: Vec<u64>,
    /// per class: sum and sum of squares of the per-trial member count
    cls_sum: Vec<f64>,
    cls_sq: Vec<f64>,
    invalid: Option<String>,
}

fn one_trial<R: RngCore>(rng: R, k: usize, n: usize, prefill: usize, pos_hits: &mut [u64], cls: &[(String, usize, usize)], cls_sum: &mut [f64], cls_sq: &mut [f64], exact: bool) -> Option<String> {
    let mut rs: ReservoirSampling<u32, R> = ReservoirSampling::new(k, rng);
    if prefill > 0 {
        for j in 0..prefill as u32 {
            rs.add(u32::MAX - j);
        }
        rs.clear();
    }
    for i in 0..n as u32 {
        rs.add(i);
    }
    let r = rs.reservoir();
    if r.len() != k.min(n) {
        return Some(format!("reservoir has {} items after {} adds (k = {})", r.len(), n, k));
    }
    if exact {
        for &p in r {
            if (p as usize) >= n {
                return Some(format!("item {} was never added", p));
            }
            pos_hits[p as usize] += 1;
        }
    } else {
        let mut cnt = vec![0u32; cls.len()];
        for &p in r {
            let p = p as usize;
            if p >= n {
                return Some(format!("item {} was never added", p));
            }
            for (ci, c) in cls.iter().enumerate() {
                if p >= c.1 && p < c.2 {
                    cnt[ci] += 1;
                }
            }
        }
        for ci in 0..cls.len() {
            cls_sum[ci] += cnt[ci] as f64;
            cls_sq[ci] += (cnt[ci] as f64) * (cnt[ci] as f64);
        }
    }
    None
}

fn measure(c: &Cell, seed: u64, trials: u64) -> Measurement {
    let exact = c.n <= 4 * c.k + 1;
    let cls = classes(c.k, c.n);
    let mut m = Measurement { trials, pos_hits: vec![0; if exact { c.n } else { 0 }], cls_sum: vec![0.0; cls.len()], cls_sq: vec![0.0; cls.len()], invalid: None };
    for t in 0..trials {
        let s = mix(seed, t);
        let bad = match c.rng {
            RngKind::Small => one_trial(SmallRng::seed_from_u64(s), c.k, c.n, c.prefill, &mut m.pos_hits, &cls, &mut m.cls_sum, &mut m.cls_sq, exact),
            RngKind::ChaCha8 => one_trial(ChaCha8Rng::seed_from_u64(s), c.k, c.n, c.prefill, &mut m.pos_hits, &cls, &mut m.cls_sum, &mut m.cls_sq, exact),
        };
        if bad.is_some() {
            m.invalid = bad;
            break;
        }
    }
    m
}

/// returns (flags, detail)
fn judge(c: &Cell, m: &Measurement) -> (Vec<(String, String)>, serde_json::Value) {
    let (k, n) = (c.k as f64, c.n as f64);
    let p = k / n;
    let t = m.trials as f64;
    let mut flags = vec![];
    if let Some(e) = &m.invalid {
        flags.push(("invalid-reservoir".to_string(), e.clone()));
        return (flags, json!({}));
    }
    if c.n <= 4 * c.k + 1 {
        let e = t * p;
        let sd = (t * p * (1.0 - p)).sqrt();
        let mut worst = (0usize, 0.0f64);
        let mut x2 = 0.0;
        for (pos, &h) in m.pos_hits.iter().enumerate() {
            let dev = (h as f64 - e).abs();
            let zv = if sd > 0.0 { dev / sd } else { 0.0 };
            if zv > worst.1 {
                worst = (pos, zv);
            }
            if dev > Z * sd + 4.0 {
                let region = if pos < c.k { "first_k" } else if pos == 4 * c.k { "switch_item" } else if pos + c.k >= c.n { "recent" } else { "plain_phase" };
                flags.push((
                    format!("position-frequency:{}", region),
                    format!("stream position {} is in the reservoir in {} of {} trials, expected k/n = {:.5} -> {:.1} (z = {:.1})", pos, h, m.trials, p, e, zv),
                ));
            }
            if sd > 0.0 {
                x2 += (h as f64 - e) * (h as f64 - e) / (sd * sd);
            }
        }
        // chi-square over positions (indicators of a size-k sample are negatively correlated: factor (n-1)/n)
        let df = n - 1.0;
        let x2c = x2 * (n - 1.0) / n;
        if df >= 1.0 && p < 1.0 {
            let wh = ((x2c / df).powf(1.0 / 3.0) - (1.0 - 2.0 / (9.0 * df))) / (2.0 / (9.0 * df)).sqrt();
            if wh > Z {
                flags.push(("chi-square".to_string(), format!("chi-square over positions = {:.1} with {} degrees of freedom (Wilson-Hilferty z = {:.1})", x2c, df, wh)));
            }
        }
        flags.truncate(4);
        (flags, json!({"k": c.k, "n": c.n, "regime": "exact", "trials": m.trials, "expected_hits_per_position": e, "worst_position": worst.0, "worst_z": (worst.1 * 100.0).round() / 100.0, "chi2": (x2c * 10.0).round() / 10.0, "df": df}))
    } else {
        let cls = classes(c.k, c.n);
        let env = (1.0 + (n / (4.0 * k)).ln()) / k;
        let mut rows = vec![];
        for (ci, cl) in cls.iter().enumerate() {
            let size = (cl.2 - cl.1) as f64;
            let e = t * size * p;
            let h = m.cls_sum[ci];
            let mean = h / t;
            let var = (m.cls_sq[ci] / t - mean * mean).max(0.0) * t / (t - 1.0).max(1.0);
            let se_h = (var * t).sqrt();
            let tested = e >= 100.0;
            let ratio = h / e;
            rows.push(json!({"class": cl.0, "ratio": (ratio * 10000.0).round() / 10000.0, "rel_se": ((se_h / e) * 10000.0).round() / 10000.0, "expected_hits": e.round(), "tested": tested}));
            if tested && (h - e).abs() > env * e + Z * se_h + 4.0 {
                flags.push((
                    format!("class-frequency:{}", cl.0.trim_end_matches(|ch: char| ch.is_ascii_digit() || ch == '_')),
                    format!("positions {}..{} ({}) are included {:.0} times over {} trials, expected {:.0} (ratio {:.4}); allowed relative deviation (1 + ln(n/4k))/k = {:.4} plus 6 s.e. = {:.4}", cl.1, cl.2, cl.0, h, m.trials, e, ratio, env, Z * se_h / e),
                ));
            }
        }
        (flags, json!({"k": c.k, "n": c.n, "regime": "gap", "trials": m.trials, "envelope": (env * 10000.0).round() / 10000.0, "classes": rows}))
    }
}

pub struct C05;

impl Check for C05 {
    type Case = Cell;
    fn name(&self) -> &'static str {
        "cells"
    }
    fn eval(&self, c: &Cell) -> Verdict {
        if c.n <= c.k {
            return Verdict::Pass(Info::new(false, hash_json(c)));
        }
        let m1 = measure(c, c.seed, c.trials as u64);
        let (f1, d1) = judge(c, &m1);
        let adds = c.trials as u64 * c.n as u64;
        let regime: &'static str = if c.n <= 4 * c.k + 1 { "exact_regime" } else { "gap_regime" };
        if f1.is_empty() {
            return Verdict::Pass(Info::new(true, hash64(&(c.k, c.n, c.rng, c.prefill))).class_if(c.prefill > 0, "reused_after_clear").class(regime).detail(d1).inner(adds));
        }
        // confirmation with fresh seeds and 4x the sample
        let m2 = measure(c, mix_str(c.seed, "confirm"), 4 * c.trials as u64);
        let (f2, d2) = judge(c, &m2);
        if f2.is_empty() {
            let mut d = d1;
            d["screening_failed_confirmation_passed"] = json!(f1.iter().map(|f| f.1.clone()).collect::<Vec<_>>());
            return Verdict::Pass(Info::new(true, hash64(&(c.k, c.n, c.rng, c.prefill))).class_if(c.prefill > 0, "reused_after_clear").class(regime).class("screening_failed_confirmation_passed").detail(d).inner(5 * adds));
        }
        let _ = d2;
        let (sig, msg) = &f2[0];
        fail(
            format!("{}{}:{}", regime, if c.prefill > 0 { ":reused-after-clear" } else { "" }, sig),
            format!("k = {}, n = {} ({:?}, prefill {} then clear()): {} [confirmed with {} fresh trials; first screening: {}]", c.k, c.n, c.rng, c.prefill, msg, m2.trials, f1[0].1),
        )
    }
}

fn cells(tier: Tier, seed: u64) -> Vec<Cell> {
    let mut v = vec![];
    let hits = tier.pick(200_000.0, 1_000_000.0);
    let mut g = SplitMix64(mix_str(seed, "c05-cells"));
    // exact regime
    for &k in &[1usize, 2, 3, 4, 8, 16, 32] {
        let mut ns = vec![k + 1, k + 2, 2 * k, 3 * k, 4 * k - 1, 4 * k, 4 * k + 1];
        let extra = tier.pick(1, 6);
        for _ in 0..extra {
            ns.push(k + 1 + g.below(3 * k as u64 + 1) as usize);
        }
        ns.sort_unstable();
        ns.dedup();
        for n in ns {
            if n <= k {
                continue;
            }
            let trials = (hits * n as f64 / k as f64).ceil() as u32;
            let rng = if (k + n) % 5 == 0 { RngKind::ChaCha8 } else { RngKind::Small };
            v.push(Cell { k, n, trials, rng, seed: mix(seed, (k * 100_003 + n) as u64), prefill: 0 });
        }
    }
    // generated k (not only powers of two) across the three borders
    for _ in 0..tier.pick(4, 16) {
        let k = 5 + g.below(60) as usize;
        for n in [k + 1, 2 * k + 1, 4 * k, 4 * k + 1] {
            v.push(Cell { k, n, trials: (hits / 4.0 * n as f64 / k as f64).ceil() as u32, rng: RngKind::Small, seed: mix(seed, (k * 100_003 + n) as u64), prefill: 0 });
        }
    }
    if tier == Tier::Thorough {
        for &k in &[64usize, 100] {
            for n in [k + 1, 2 * k, 4 * k, 4 * k + 1] {
                v.push(Cell { k, n, trials: (hits * n as f64 / k as f64).ceil() as u32, rng: RngKind::Small, seed: mix(seed, (k * 100_003 + n) as u64), prefill: 0 });
            }
        }
    }
    // gap regime
    let ks: &[usize] = tier.pick(&[64, 128, 256], &[64, 128, 256, 1024]);
    for &k in ks {
        let mut ns = vec![4 * k + 2, 4 * k + 3, 5 * k, 6 * k, 8 * k, 16 * k, 64 * k];
        if k == 64 {
            ns.push(100_000);
        }
        if tier == Tier::Thorough {
            ns.extend([4 * k + 8, 9 * k / 2, 11 * k / 2, 32 * k, 100_000]);
            for _ in 0..4 {
                ns.push(4 * k + 2 + g.below(60 * k as u64) as usize);
            }
        }
        ns.sort_unstable();
        ns.dedup();
        for n in ns {
            if n > tier.pick(100_000, 400_000) {
                continue;
            }
            // enough trials for ~1e4 (quick) / 4e4 (thorough) expected hits of a single position,
            // capped by the number of adds per cell
            let want = tier.pick(1.0e4, 4.0e4) * n as f64 / k as f64;
            let cap = tier.pick(4.0e8, 4.0e9) / n as f64;
            let trials = want.min(cap).max(2000.0) as u32;
            v.push(Cell { k, n, trials, rng: if n % 3 == 0 { RngKind::ChaCha8 } else { RngKind::Small }, seed: mix(seed, (k * 100_003 + n) as u64), prefill: 0 });
        }
    }
    // very long streams relative to k (n/k = 3e6: the take probability k/n is far below anything the cells above see)
    v.push(Cell { k: 16, n: 48_000_000, trials: tier.pick(160, 640), rng: RngKind::Small, seed: mix(seed, 16 * 100_003 + 48_000_000), prefill: 0 });
    // samplers reused after clear(): same requirement as for fresh ones
    for &(k, n, prefill) in &[(1usize, 5usize, 40usize), (4, 17, 200), (8, 33, 1000), (64, 384, 4000), (64, 1280, 800), (64, 1280, 20_000), (128, 640, 3000), (16, 60, 70)] {
        let exact = n <= 4 * k + 1;
        let trials = if exact { (hits / 4.0 * n as f64 / k as f64).ceil() as u32 } else { (tier.pick(1.0e4, 4.0e4) * n as f64 / k as f64).min(tier.pick(2.0e8, 2.0e9) / (n + prefill) as f64) as u32 };
        v.push(Cell { k, n, trials: trials.max(2000), rng: RngKind::Small, seed: mix(seed, (k * 100_003 + n + 7 * prefill) as u64), prefill });
    }
    v
}

/// One reservoir of millions of slots: with n = 4k every position is kept with probability exactly 1/4, so each
/// quarter of the stream, and each residue class of the first k positions modulo 3, 5 and 7, must hold its share of
/// the reservoir (the slot a kept element overwrites has to be uniform over all k slots, also for k near 2^24).
#[derive(Clone, Debug, Serialize, Deserialize)]
pub struct BigCell {
    pub k: usize,
    pub seed: u64,
}

pub struct BigK;

impl Check for BigK {
    type Case = BigCell;
    fn name(&self) -> &'static str {
        "huge_reservoir"
    }
    fn eval(&self, c: &BigCell) -> Verdict {
        let (k, n) = (c.k, 4 * c.k);
        let mut rs: ReservoirSampling<u32, ChaCha8Rng> = ReservoirSampling::new(k, ChaCha8Rng::seed_from_u64(c.seed));
        for i in 0..n as u32 {
            rs.add(i);
        }
        let res = rs.reservoir();
        if res.len() != k {
            return fail("huge-reservoir:len", format!("reservoir holds {} of k = {} items after {} adds", res.len(), k, n));
        }
        // quarters of the stream: hypergeometric-like, variance below k * (1/4)(3/4)
        let mut quarters = [0u64; 4];
        let mut residues: Vec<Vec<u64>> = vec![vec![0; 3], vec![0; 5], vec![0; 7]];
        let mut first_k = 0u64;
        for &p in res.iter() {
            quarters[(p as usize / k).min(3)] += 1;
            if (p as usize) < k {
                first_k += 1;
                for (j, m) in [3usize, 5, 7].iter().enumerate() {
                    residues[j][p as usize % m] += 1;
                }
            }
        }
        let exp = k as f64 / 4.0;
        let sd = (k as f64 * 3.0 / 16.0).sqrt();
        for (qi, &cnt) in quarters.iter().enumerate() {
            if (cnt as f64 - exp).abs() > 8.0 * sd {
                return fail(
                    "huge-reservoir:quarter-share",
                    format!("k = {}, n = 4k: quarter {} of the stream holds {} reservoir slots, expected {:.0} +- {:.0} (8 sigma = {:.0})", k, qi, cnt, exp, sd, 8.0 * sd),
                );
            }
        }
        for (j, m) in [3usize, 5, 7].iter().enumerate() {
            let e = first_k as f64 / *m as f64;
            let s = (first_k as f64 / *m as f64).sqrt();
            for (r, &cnt) in residues[j].iter().enumerate() {
                if (cnt as f64 - e).abs() > 8.0 * s + 1.0 {
                    return fail(
                        "huge-reservoir:residue-share",
                        format!("k = {}, n = 4k: of the {} surviving first-k positions {} are = {} mod {}, expected {:.0} +- {:.0}", k, first_k, cnt, r, m, e, s),
                    );
                }
            }
        }
        let mut i = Info::new(true, hash_json(c));
        i.inner_evals = n as u64;
        Verdict::Pass(i)
    }
}

pub fn checks() -> Vec<Box<dyn DynCheck>> {
    vec![Box::new(C05), Box::new(BigK)]
}

pub fn run(ctx: &Ctx) {
    ctx.set_rule("cells (k, n): exact regime n <= 4k+1 for k in {1,2,3,4,8,16,32} (thorough also 64, 100) with n in {k+1,k+2,2k,3k,4k-1,4k,4k+1} plus generated n; gap regime k in {64,128,256} (thorough 1024) with n from 4k+2 to 64k and 100000 plus generated n, and one cell k = 16, n = 4.8e7 (n/k = 3e6). Each cell runs many independent trials (SmallRng / ChaCha8 seeded from VERIF_SEED), the stream being position ids. Exact regime: every single position's inclusion count against Binomial(T, k/n) at z = 6 plus a chi-square over positions; gap regime: classes first k / plain phase / switch item / the k items after it / stream deciles / last k against k/n within the documented envelope (1 + ln(n/4k))/k plus 6 cluster-robust standard errors. A flagged cell is re-measured with 4x the trials and fresh seeds; only a confirmed deviation is a violation. huge_reservoir: k = 3*2^20, 3*2^22 (thorough also 2^24 + 12345), n = 4k, one trial each: every quarter of the stream holds k/4 of the slots and the surviving first-k positions are spread evenly over the residues modulo 3, 5, 7 (8 sigma). Eight further cells feed a sampler, clear() it and then measure the same frequencies on the reused sampler. Non-trivial: every cell with n > k; distinct = (k, n, rng family, prefill). evaluations = cells + adds executed.");
    ctx.assume("probability is taken over SmallRng (xoshiro256++) and ChaCha8 seeds; z = 6 one-sided per assertion with confirmation");
    ctx.run_regressions(&[&C05]);
    ctx.run_fixed(&C05, cells(ctx.tier, ctx.seed));
    // reservoirs of millions of slots (k below, near and above 2^24)
    let big: Vec<BigCell> = [3usize << 20, 3 << 22, (1 << 24) + 12_345].iter().take(ctx.tier.pick(2, 3)).map(|&k| BigCell { k, seed: mix(ctx.seed, k as u64) }).collect();
    ctx.run_fixed(&BigK, big);
}
