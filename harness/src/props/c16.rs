//! C16 — T-Digest aggregates are exact regardless of compression.
use crate::engine::*;
use crate::props::c15::{backlog_strategy, delta_strategy};
use crate::support::td::*;
use proptest::prelude::*;
use serde::{Deserialize, Serialize};

#[derive(Clone, Debug, Serialize, Deserialize)]
pub enum Op {
    Insert(f64),
    InsertW(f64, f64),
    /// `n` unit-weight inserts from a seeded uniform block [lo, lo+span]
    Block { n: u16, lo: f64, span: f64, seed: u64 },
    ZeroW(f64),
    ReadQuantile(f64),
    ReadCdf(f64),
    ReadAgg,
    Clear,
}

#[derive(Clone, Debug, Serialize, Deserialize)]
pub struct Case {
    pub scale: Scale,
    pub delta: f64,
    pub backlog: usize,
    pub ops: Vec<Op>,
    /// every weight of the history is multiplied by 10^weight_exp (any finite weight >= 0 is legal)
    #[serde(default)]
    pub weight_exp: i8,
    /// every value of the history is multiplied by 10^value_exp
    #[serde(default)]
    pub value_exp: i8,
    /// every weight (also the implicit unit weights) is additionally multiplied by 1e-310, which puts the
    /// weights of a history around the subnormal border (1e-316 .. 1e-304); only count(), min(), max(),
    /// is_empty() and the twin comparison are checked then (x * w underflows, so sum()/mean() carry no accuracy)
    #[serde(default)]
    pub tiny_weights: bool,
}

pub struct C16;

struct Truth {
    count: f64,
    sum: f64,
    abs_sum: f64,
    min: f64,
    max: f64,
    inserts: usize,
    unit: bool,
}

impl Truth {
    fn new() -> Self {
        Truth { count: 0.0, sum: 0.0, abs_sum: 0.0, min: f64::INFINITY, max: f64::NEG_INFINITY, inserts: 0, unit: true }
    }
    fn add(&mut self, x: f64, w: f64) {
        self.count += w;
        self.sum += x * w;
        self.abs_sum += (x * w).abs();
        self.min = self.min.min(x);
        self.max = self.max.max(x);
        self.inserts += 1;
        if w != 1.0 {
            self.unit = false;
        }
    }
}

fn agg_check(d: &AnyTD, t: &Truth, step: usize, tiny: bool) -> Result<(), (String, String)> {
    let (count, sum, mean, mn, mx) = (d.count(), d.sum(), d.mean(), d.min(), d.max());
    if t.inserts == 0 {
        if !d.is_empty() {
            return Err(("is_empty-false-without-weight".into(), format!("step {}: is_empty() = false although no positive weight was inserted since creation/clear", step)));
        }
        if count != 0.0 {
            return Err(("count-nonzero-when-empty".into(), format!("step {}: count() = {} on an empty digest", step, count)));
        }
        return Ok(());
    }
    if d.is_empty() {
        return Err(("is_empty-true-with-weight".into(), format!("step {}: is_empty() = true after {} positive-weight inserts", step, t.inserts)));
    }
    if t.unit {
        if count != t.count {
            return Err(("count!=inserts".into(), format!("step {}: count() = {} after {} unit-weight inserts", step, count, t.count)));
        }
    } else if (count - t.count).abs() > 1e-9 * t.count {
        return Err(("count!=sum-of-weights".into(), format!("step {}: count() = {} but the inserted weights sum to {}", step, count, t.count)));
    }
    if tiny {
        if mn != t.min || mx != t.max {
            return Err((if mn != t.min { "min" } else { "max" }.into(), format!("step {}: min()/max() = {}/{} but the inserted extremes are {}/{}", step, mn, mx, t.min, t.max)));
        }
        return Ok(());
    }
    let tol = 1e-9 * t.abs_sum + f64::MIN_POSITIVE;
    if (sum - t.sum).abs() > tol {
        return Err(("sum".into(), format!("step {}: sum() = {} but the weighted sum is {} (tolerance {:e})", step, sum, t.sum, tol)));
    }
    let tmean = t.sum / t.count;
    let mtol = 1e-9 * (t.abs_sum / t.count) + f64::MIN_POSITIVE;
    if (mean - tmean).abs() > mtol {
        return Err(("mean".into(), format!("step {}: mean() = {} but the weighted mean is {}", step, mean, tmean)));
    }
    if mn != t.min {
        return Err(("min".into(), format!("step {}: min() = {} but the smallest inserted value is {}", step, mn, t.min)));
    }
    if mx != t.max {
        return Err(("max".into(), format!("step {}: max() = {} but the largest inserted value is {}", step, mx, t.max)));
    }
    Ok(())
}

impl Check for C16 {
    type Case = Case;
    fn name(&self) -> &'static str {
        "aggregates"
    }
    fn eval(&self, c: &Case) -> Verdict {
        let mut d = AnyTD::new(c.scale, c.delta, c.backlog);
        let mut twin = AnyTD::new(c.scale, c.delta, c.backlog); // same history without zero-weight inserts
        let mut t = Truth::new();
        let mut reads = 0u32;
        let mut zero_inserts = 0u32;
        let mut max_fusion = false;
        let wunit = if c.tiny_weights { 1e-310 } else { 10f64.powi(c.weight_exp as i32) };
        let vunit = 10f64.powi(c.value_exp as i32);
        let tiny = c.tiny_weights;
        let ok = |x: f64, w: f64| x.is_finite() && w.is_finite() && w > 0.0 && (x * w).is_finite() && (tiny || x == 0.0 || (x * w).abs() > 1e-290);
        macro_rules! twin_eq {
            ($step:expr, $what:expr, $a:expr, $b:expr) => {{
                let (a, b): (f64, f64) = ($a, $b);
                if a.to_bits() != b.to_bits() {
                    return fail("zero-weight-insert-changes-answers", format!("step {}: {} = {} but a twin digest fed the same history without the zero-weight inserts gives {}", $step, $what, a, b));
                }
            }};
        }
        for (step, op) in c.ops.iter().enumerate() {
            match op {
                Op::Insert(x) => {
                    let x = &(*x * vunit);
                    if !x.is_finite() {
                        continue;
                    }
                    if tiny {
                        d.insert_weighted(*x, wunit);
                        twin.insert_weighted(*x, wunit);
                        t.add(*x, wunit);
                    } else {
                        d.insert(*x);
                        twin.insert(*x);
                        t.add(*x, 1.0);
                    }
                }
                Op::InsertW(x, w) => {
                    let w = &(*w * wunit);
                    let x = &(*x * vunit);
                    if !ok(*x, *w) {
                        continue;
                    }
                    d.insert_weighted(*x, *w);
                    twin.insert_weighted(*x, *w);
                    t.add(*x, *w);
                }
                Op::Block { n, lo, span, seed } => {
                    let mut g = stat::SplitMix64(*seed);
                    for _ in 0..*n {
                        let x = (lo + span * g.f64()) * vunit;
                        if tiny {
                            d.insert_weighted(x, wunit);
                            twin.insert_weighted(x, wunit);
                            t.add(x, wunit);
                        } else {
                            d.insert(x);
                            twin.insert(x);
                            t.add(x, 1.0);
                        }
                    }
                }
                Op::ZeroW(x) => {
                    let x = &(*x * vunit);
                    if !x.is_finite() {
                        continue;
                    }
                    zero_inserts += 1;
                    d.insert_weighted(*x, 0.0);
                }
                Op::ReadQuantile(q) => {
                    reads += 1;
                    twin_eq!(step, format!("quantile({})", q), d.quantile(*q), twin.quantile(*q));
                }
                Op::ReadCdf(x) => {
                    reads += 1;
                    twin_eq!(step, format!("cdf({})", x), d.cdf(*x), twin.cdf(*x));
                }
                Op::ReadAgg => {
                    reads += 1;
                    if let Err((sig, msg)) = agg_check(&d, &t, step, c.tiny_weights) {
                        return fail(sig, format!("{} [{} delta={} backlog={}]", msg, c.scale.name(), c.delta, c.backlog));
                    }
                    twin_eq!(step, "count()", d.count(), twin.count());
                    twin_eq!(step, "sum()", d.sum(), twin.sum());
                    twin_eq!(step, "min()", d.min(), twin.min());
                    twin_eq!(step, "max()", d.max(), twin.max());
                    if d.n_centroids() != twin.n_centroids() {
                        return fail("zero-weight-insert-changes-answers", format!("step {}: n_centroids {} vs twin {}", step, d.n_centroids(), twin.n_centroids()));
                    }
                    if t.inserts > d.n_centroids() {
                        max_fusion = true;
                    }
                }
                Op::Clear => {
                    d.clear();
                    twin.clear();
                    t = Truth::new();
                }
            }
            // is_empty must hold without forcing a merge
            if d.is_empty() != (t.inserts == 0) {
                return fail(
                    if t.inserts == 0 { "is_empty-false-without-weight" } else { "is_empty-true-with-weight" },
                    format!("step {} ({:?}): is_empty() = {} with {} positive-weight inserts since creation/clear", step, op, d.is_empty(), t.inserts),
                );
            }
            if d.min() != t.min || d.max() != t.max {
                return fail(if d.min() != t.min { "min" } else { "max" }, format!("step {} ({:?}): min()/max() = {}/{} but the inserted extremes are {}/{}", step, op, d.min(), d.max(), t.min, t.max));
            }
        }
        if let Err((sig, msg)) = agg_check(&d, &t, c.ops.len(), c.tiny_weights) {
            return fail(sig, format!("{} [{} delta={} backlog={}]", msg, c.scale.name(), c.delta, c.backlog));
        }
        if t.inserts > 0 {
            twin_eq!(c.ops.len(), "quantile(0.5)", d.quantile(0.5), twin.quantile(0.5));
            if t.inserts > d.n_centroids() {
                max_fusion = true;
            }
        }
        let nontrivial = reads >= 2 && max_fusion;
        let mut info = Info::new(nontrivial, hash_json(c))
            .class(c.scale.name())
            .class_if(max_fusion, "fusion")
            .class_if(zero_inserts > 0, "zero_weight_inserts")
            .class_if(c.weight_exp != 0, "rescaled_weights")
            .class_if(c.tiny_weights, "subnormal_weights")
            .class_if(!t.unit, "weighted");
        info.inner_evals = c.ops.len() as u64;
        Verdict::Pass(info)
    }
}

fn strategy(tier: Tier) -> BoxedStrategy<Case> {
    let maxops = tier.pick(120usize, 400usize);
    let val = prop_oneof![(0i32..8).prop_map(|i| i as f64), -1e3f64..1e3, Just(1e11), Just(-3e11), Just(0.1), 1e-3f64..1e12];
    let w = prop_oneof![10 => Just(1.0f64), 20 => 1e-6f64..1e6, 10 => Just(1e-6), 10 => Just(1e6), 10 => (1u32..9).prop_map(|i| i as f64),
        // weight ratios beyond the 53-bit mantissa within one history
        1 => prop_oneof![Just(1152921504606846976.0f64), Just(1e18), Just(1e25), Just(8.673617379884035e-19)]];
    let op = prop_oneof![
        8 => val.clone().prop_map(Op::Insert),
        4 => (val.clone(), w).prop_map(|(x, w)| Op::InsertW(x, w)),
        2 => (1u16..600, -1e3f64..1e3, 0.0f64..1e4, any::<u64>()).prop_map(|(n, lo, span, seed)| Op::Block { n, lo, span, seed }),
        2 => val.clone().prop_map(Op::ZeroW),
        1 => (0.0f64..=1.0).prop_map(Op::ReadQuantile),
        1 => val.prop_map(Op::ReadCdf),
        2 => Just(Op::ReadAgg),
        1 => Just(Op::Clear),
    ];
    let weight_exp = prop_oneof![3 => Just(0i8), 1 => -30i8..=30, 1 => prop_oneof![Just(-20i8), Just(-17), Just(-16), Just(20)]];
    let value_exp = prop_oneof![4 => Just(0i8), 1 => -30i8..=30];
    (scale(), delta_strategy(), backlog_strategy(), prop::collection::vec(op, 0..maxops), weight_exp, value_exp, prop::bool::weighted(0.06))
        .prop_map(|(scale, delta, backlog, ops, weight_exp, value_exp, tiny_weights)| normalise(Case { scale, delta, backlog, ops, weight_exp: if tiny_weights { 0 } else { weight_exp }, value_exp, tiny_weights }))
        .boxed()
}

/// A rescaled history uses weighted inserts only (a unit weight would drown 1e-20 in rounding).
pub fn normalise(c: Case) -> Case {
    if c.weight_exp == 0 {
        return c;
    }
    let ops = c
        .ops
        .into_iter()
        .map(|o| match o {
            Op::Insert(x) => Op::InsertW(x, 1.0),
            Op::Block { n, lo, .. } => Op::InsertW(lo, n as f64),
            o => o,
        })
        .collect();
    Case { ops, ..c }
}

pub fn checks() -> Vec<Box<dyn DynCheck>> {
    vec![Box::new(C16)]
}

pub fn run(ctx: &Ctx) {
    ctx.set_rule("generated: scale K0..K3, delta 1.01..1000, backlog 0..1000 (rarely 2^62, usize::MAX - 1, usize::MAX: nothing merges before a read), histories of insert / insert_weighted (weights 1e-6..1e6, rarely 2^60, 1e18, 1e25, 2^-60 next to ordinary ones; in 40 % of the histories all multiplied by 10^e with e in -30..=30; in 6 % of the histories all weights, also the unit ones, are multiplied by 1e-310 and thus lie around the subnormal border, where only count/min/max/is_empty and the twin comparison are checked) / seeded blocks of unit inserts / zero-weight inserts / reads (quantile, cdf, aggregates: they force merges) / clear. Oracle: count() == sum of weights (exact for unit weights, rel 1e-9 otherwise), sum()/mean() within 1e-9 of the accumulated |x*w|, min()/max() exactly the extremes, every read bit-identical to a twin digest fed the same history without the zero-weight inserts, is_empty() iff no positive weight since creation/clear (checked after every op without forcing a merge). Non-trivial: >= 2 reads (merges) and fusion happened (n_centroids < inserts). Distinct = hash of the case.");
    ctx.run_regressions(&[&C16]);
    let t = ctx.tier;
    ctx.run_random(&C16, t.pick(60_000, 1_000_000), move || strategy(t));
    ctx.require_class("aggregates", "fusion", 0.3);
    ctx.require_class("aggregates", "zero_weight_inserts", 0.3);
    ctx.require_class("aggregates", "weighted", 0.3);
    if ctx.tier == Tier::Thorough && !ctx.failed() {
        // coverage-guided search over the same case space (libFuzzer, 8 parallel campaigns)
        crate::engine::fuzz::run_tdigest_ops(ctx, 1, 1_600_000);
    }
}
