//! C17 — HyperLogLog state is a function of the set of distinct hashes.
use crate::engine::*;
use crate::support::hashers::{hash_one_u64, GenBH, HKind};
use pdatastructs::hyperloglog::HyperLogLog;
use proptest::prelude::*;
use serde::{Deserialize, Serialize};

#[derive(Clone, Debug, Serialize, Deserialize)]
pub enum HSpec {
    Raw(u64),
    /// single bit
    Bit(u8),
    /// only the low b bits may be set (all upper bits zero)
    LowOnly(u64),
    /// register chosen by index, first set upper bit at `rank` (1-based), noise below it
    RegRank { reg: u16, rank: u8, noise: u64 },
}

impl HSpec {
    pub fn materialise(&self, b: usize) -> u64 {
        match *self {
            HSpec::Raw(x) => x,
            HSpec::Bit(i) => 1u64 << (i % 64),
            HSpec::LowOnly(x) => x & ((1u64 << b) - 1),
            HSpec::RegRank { reg, rank, noise } => {
                let j = idx(reg, 1usize << b) as u64;
                let wbits = 64 - b; // significant bits of w
                let r = 1 + (rank as usize) % wbits; // 1..=wbits
                let top = 1u64 << (wbits - r);
                let w = top | (noise & (top - 1));
                (w << b) | j
            }
        }
    }
}

#[derive(Clone, Debug, Serialize, Deserialize)]
pub struct Case {
    pub b: u8,
    pub hashes: Vec<HSpec>,
    pub perm_seed: u64,
    pub dup_seed: u64,
    pub hk: HKind,
    pub keys: Vec<u64>,
}

pub fn hspec() -> impl Strategy<Value = HSpec> {
    prop_oneof![
        2 => any::<u64>().prop_map(HSpec::Raw),
        1 => prop_oneof![Just(0u64), Just(u64::MAX), Just(1u64), Just(1u64 << 63)].prop_map(HSpec::Raw),
        1 => (0u8..64).prop_map(HSpec::Bit),
        1 => any::<u64>().prop_map(HSpec::LowOnly),
        4 => (0u16..64, any::<u8>(), any::<u64>()).prop_map(|(reg, rank, noise)| HSpec::RegRank { reg: reg * 1024, rank, noise }),
        2 => (any::<u16>(), any::<u8>(), any::<u64>()).prop_map(|(reg, rank, noise)| HSpec::RegRank { reg, rank, noise }),
    ]
}

pub fn hkind_real() -> impl Strategy<Value = HKind> {
    prop_oneof![
        Just(HKind::Ident),
        Just(HKind::Sip),
        (0u64..1000).prop_map(HKind::Seeded),
        any::<u64>().prop_map(HKind::Mix),
    ]
}

fn strategy(tier: Tier) -> BoxedStrategy<Case> {
    let maxn = tier.pick(120usize, 300usize);
    (
        4u8..=18,
        prop::collection::vec(hspec(), 0..maxn),
        any::<u64>(),
        any::<u64>(),
        hkind_real(),
        prop::collection::vec(prop_oneof![any::<u64>(), 0u64..64], 0..40),
    )
        .prop_map(|(b, hashes, perm_seed, dup_seed, hk, keys)| Case { b, hashes, perm_seed, dup_seed, hk, keys })
        .boxed()
}

/// Reference rank: scan the 64-b upper bits from the top, 1-based position of the first set bit,
/// 64-b+1 if none.
pub fn ref_rank(h: u64, b: usize) -> u8 {
    for pos in 1..=(64 - b) {
        if (h >> (64 - pos)) & 1 == 1 {
            return pos as u8;
        }
    }
    (64 - b + 1) as u8
}

pub fn ref_registers(hashes: &[u64], b: usize) -> Vec<u8> {
    let mut r = vec![0u8; 1 << b];
    for &h in hashes {
        let j = (h & ((1u64 << b) - 1)) as usize;
        let p = ref_rank(h, b);
        if p > r[j] {
            r[j] = p;
        }
    }
    r
}

pub struct C17;

impl Check for C17 {
    type Case = Case;
    fn name(&self) -> &'static str {
        "registers_model"
    }
    fn eval(&self, c: &Case) -> Verdict {
        let b = c.b as usize;
        let hs: Vec<u64> = c.hashes.iter().map(|h| h.materialise(b)).collect();
        let bh = GenBH(c.hk);
        let mut a: HyperLogLog<u64, GenBH> = HyperLogLog::with_hash(b, bh);
        for &h in &hs {
            a.add_hashed(h);
        }
        let want = ref_registers(&hs, b);
        if a.registers() != &want[..] {
            let j = (0..want.len()).find(|&j| a.registers()[j] != want[j]).unwrap();
            return fail(
                "registers!=model",
                format!("register {} is {} but the reference model gives {} (b={})", j, a.registers()[j], want[j], b),
            );
        }
        // permuted + duplicated order
        let mut order: Vec<u64> = hs.clone();
        let mut rng = stat::SplitMix64(c.dup_seed);
        let ndup = if hs.is_empty() { 0 } else { (rng.below(hs.len() as u64 + 1)) as usize };
        for _ in 0..ndup {
            let i = rng.below(hs.len() as u64) as usize;
            order.push(hs[i]);
        }
        let mut rng = stat::SplitMix64(c.perm_seed);
        for i in (1..order.len()).rev() {
            let j = rng.below(i as u64 + 1) as usize;
            order.swap(i, j);
        }
        let mut p: HyperLogLog<u64, GenBH> = HyperLogLog::with_hash(b, bh);
        for &h in &order {
            p.add_hashed(h);
        }
        if p.registers() != a.registers() || p != a {
            return fail("permutation-changes-registers", format!("permuted/duplicated order of the same hashes gives different registers (b={})", b));
        }
        if p.count() != a.count() {
            return fail("permutation-changes-count", "count differs for equal registers".to_string());
        }
        // add(x) == add_hashed(hash_one(x))
        let mut t1: HyperLogLog<u64, GenBH> = HyperLogLog::with_hash(b, bh);
        let mut t2: HyperLogLog<u64, GenBH> = HyperLogLog::with_hash(b, bh);
        for &k in &c.keys {
            t1.add(&k);
            t2.add_hashed(hash_one_u64(&bh, k));
            if t1 != t2 {
                return fail("add!=add_hashed(hash_one)", format!("after add({}) under {:?} the twin fed add_hashed(hash_one) differs", k, c.hk));
            }
        }
        // the same law for unsized and composite element types (only meaningful for real hashers)
        if matches!(c.hk, HKind::Sip | HKind::Seeded(_)) && !c.keys.is_empty() && b <= 14 {
            use std::hash::BuildHasher;
            let mut s1: HyperLogLog<str, GenBH> = HyperLogLog::with_hash(b, bh);
            let mut s2: HyperLogLog<str, GenBH> = HyperLogLog::with_hash(b, bh);
            let mut y1: HyperLogLog<[u8], GenBH> = HyperLogLog::with_hash(b, bh);
            let mut y2: HyperLogLog<[u8], GenBH> = HyperLogLog::with_hash(b, bh);
            let mut t1: HyperLogLog<(u32, u64), GenBH> = HyperLogLog::with_hash(b, bh);
            let mut t2: HyperLogLog<(u32, u64), GenBH> = HyperLogLog::with_hash(b, bh);
            for &k in &c.keys {
                let st = format!("key-{}", k);
                s1.add(st.as_str());
                s2.add_hashed(bh.hash_one(st.as_str()));
                let by = k.to_le_bytes();
                let sl: &[u8] = &by[..(1 + (k % 8) as usize)];
                y1.add(sl);
                y2.add_hashed(bh.hash_one(sl));
                let tu = ((k >> 40) as u32, k);
                t1.add(&tu);
                t2.add_hashed(bh.hash_one(tu));
            }
            if s1.registers() != s2.registers() || y1.registers() != y2.registers() || t1.registers() != t2.registers() {
                return fail("add!=add_hashed(hash_one):non-u64-elements", format!("add(x) differs from add_hashed(hash_one(x)) for str / [u8] / tuple elements under {:?}", c.hk));
            }
        }
        let keyhashes: Vec<u64> = c.keys.iter().map(|&k| hash_one_u64(&bh, k)).collect();
        if t1.registers() != &ref_registers(&keyhashes, b)[..] {
            return fail("add-registers!=model", "registers after add(x) differ from the model over hash_one(x)".to_string());
        }
        // reconstruction
        let r = HyperLogLog::<u64, GenBH>::with_registers_and_hash(b, a.registers().to_vec(), bh);
        if r != a || r.count() != a.count() || r.registers() != a.registers() || r.b() != a.b() {
            return fail("reconstruct!=original", "with_registers_and_hash(b, registers, hasher) is not equal to the original".to_string());
        }
        // non-triviality
        let mut seen: std::collections::HashMap<u64, u8> = std::collections::HashMap::new();
        let mut multi = false;
        let mut upper_zero = false;
        for &h in &hs {
            let j = h & ((1u64 << b) - 1);
            let rk = ref_rank(h, b);
            if h >> b == 0 {
                upper_zero = true;
            }
            if let Some(&old) = seen.get(&j) {
                if old != rk {
                    multi = true;
                }
            }
            seen.insert(j, rk);
        }
        let mut canon = hs.clone();
        canon.sort_unstable();
        canon.dedup();
        Verdict::Pass(
            Info::new(multi || upper_zero, hash64(&(b, &canon, &c.keys, c.hk)))
                .class_if(multi, "register_with_two_ranks")
                .class_if(upper_zero, "upper_bits_zero")
                .class_if(!c.keys.is_empty(), "has_add_keys")
                .class_if(hs.is_empty(), "empty"),
        )
    }
}

pub fn checks() -> Vec<Box<dyn DynCheck>> {
    vec![Box::new(C17), Box::new(super::extendpaths::ExtHll)]
}

pub fn run(ctx: &Ctx) {
    ctx.set_rule("generated: b in 4..=18, multiset of <=120 (quick) / <=300 (thorough) 64-bit hashes from {random, 0, MAX, single bits, low-bits-only, chosen register+rank}, a permutation and duplication pattern, keys for add under Ident/Sip/Seeded/Mix hashers (u64 elements; under the real hashers also str, [u8] and tuple elements). Non-trivial: >=2 hashes address one register with different ranks, or a hash with all upper bits zero is present. Distinct = hash of (b, sorted distinct hashes, keys, hasher). extend_path: default-hasher HyperLogLog (b 4..=12) fed through Extend<T> / Extend<&T> in generated chunks: registers, count and is_empty equal to a sketch filled by add calls after every chunk.");
    ctx.assume("reference register model written from the property text (bit scan), not from the implementation's leading_zeros formula");
    ctx.run_regressions(&[&C17]);
    let tier = ctx.tier;
    ctx.run_random(&C17, tier.pick(400_000, 6_000_000), move || strategy(tier));
    // both Extend entry points of the default-hasher HyperLogLog
    ctx.run_random(&super::extendpaths::ExtHll, tier.pick(30_000, 300_000), super::extendpaths::hll_strategy);
    ctx.require_class("registers_model", "register_with_two_ranks", 0.2);
    ctx.require_class("registers_model", "upper_bits_zero", 0.05);
}
