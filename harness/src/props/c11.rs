//! C11 — memory is bounded by the configuration, not by the stream.
use crate::engine::*;
use crate::support::alloc;
use crate::support::hashers::{GenBH, HKind};
use crate::support::rng::SmRng;
use crate::support::td::*;
use pdatastructs::countminsketch::CountMinSketch;
use pdatastructs::filters::bloomfilter::BloomFilter;
use pdatastructs::filters::cuckoofilter::CuckooFilter;
use pdatastructs::filters::quotientfilter::QuotientFilter;
use pdatastructs::filters::Filter;
use pdatastructs::hyperloglog::HyperLogLog;
use pdatastructs::reservoirsampling::ReservoirSampling;
use pdatastructs::topk::cmsheap::CMSHeap;
use pdatastructs::topk::lossycounter::LossyCounter;
use proptest::prelude::*;
use serde::{Deserialize, Serialize};

#[derive(Clone, Copy, Debug, PartialEq, Serialize, Deserialize)]
pub enum Cfg {
    Bloom { m: usize, k: usize },
    CmsU8 { w: usize, d: usize },
    CmsU16 { w: usize, d: usize },
    CmsU32 { w: usize, d: usize },
    CmsU64 { w: usize, d: usize },
    CmsUsize { w: usize, d: usize },
    Hll { b: usize },
    Cuckoo { bucketsize: usize, n_buckets: usize, l_fp: usize },
    Quotient { q: usize, r: usize },
    TDigest { scale: Scale, delta: f64, backlog: usize },
    Reservoir { k: usize },
    CmsHeap { k: usize, w: usize, d: usize },
    Lossy { width: usize },
}

impl Cfg {
    fn kind(&self) -> &'static str {
        match self {
            Cfg::Bloom { .. } => "bloom",
            Cfg::CmsU8 { .. } | Cfg::CmsU16 { .. } | Cfg::CmsU32 { .. } | Cfg::CmsU64 { .. } | Cfg::CmsUsize { .. } => "cms",
            Cfg::Hll { .. } => "hll",
            Cfg::Cuckoo { .. } => "cuckoo",
            Cfg::Quotient { .. } => "quotient",
            Cfg::TDigest { .. } => "tdigest",
            Cfg::Reservoir { .. } => "reservoir",
            Cfg::CmsHeap { .. } => "cmsheap",
            Cfg::Lossy { .. } => "lossycounter",
        }
    }
    /// (model bytes, allowed factor c, nominal capacity in items)
    fn model(&self, n: usize) -> (f64, f64, f64) {
        match *self {
            Cfg::Bloom { m, k } => (m as f64 / 8.0 + 8.0 * k as f64, 2.0, m as f64 / (k.max(1) as f64)),
            Cfg::CmsU8 { w, d } => ((w * d) as f64 + 8.0 * d as f64, 2.0, (w * d) as f64),
            Cfg::CmsU16 { w, d } => ((w * d * 2) as f64 + 8.0 * d as f64, 2.0, (w * d) as f64),
            Cfg::CmsU32 { w, d } => ((w * d * 4) as f64 + 8.0 * d as f64, 2.0, (w * d) as f64),
            Cfg::CmsU64 { w, d } | Cfg::CmsUsize { w, d } => ((w * d * 8) as f64 + 8.0 * d as f64, 2.0, (w * d) as f64),
            Cfg::Hll { b } => ((1usize << b) as f64, 2.0, (1usize << b) as f64),
            Cfg::Cuckoo { bucketsize, n_buckets, l_fp } => ((bucketsize * n_buckets * l_fp) as f64 / 8.0, 2.0, (bucketsize * n_buckets) as f64),
            Cfg::Quotient { q, r } => (((1usize << q) * (r + 3)) as f64 / 8.0, 2.0, (1usize << q) as f64),
            Cfg::TDigest { delta, backlog, .. } => ((delta + backlog as f64 + 4.0) * 16.0 * 2.0, 2.0, delta + backlog as f64),
            Cfg::Reservoir { k } => ((k * 8) as f64, 2.0, k as f64),
            // per tracked item: Rc allocation (24 B) + hash-map slot (17 B at load 7/8, power-of-two growth) + B-tree slot (~40 B)
            Cfg::CmsHeap { k, w, d } => (k as f64 * 100.0 + (w * d * 8) as f64 + 8.0 * d as f64, 4.0, k as f64),
            Cfg::Lossy { width } => {
                let windows = (n + width - 1) / width;
                let h: f64 = (1..=windows.max(1)).map(|i| 1.0 / i as f64).sum();
                (width as f64 * (h + 1.0) * 25.0, 4.0, width as f64)
            }
        }
    }
}

#[derive(Clone, Debug, Serialize, Deserialize)]
pub struct Case {
    pub cfg: Cfg,
    pub n: usize,
    pub seed: u64,
    /// every so often: clear() and continue (0 = never)
    pub clear_at: u16,
    /// filters: merge/union small operands into the structure along the way
    pub with_merges: bool,
}

/// Build the structure, feed `n` items, return heap bytes held afterwards, after clear(), and the
/// number of failed operations.
fn measure(c: &Case, n: usize) -> (isize, isize, u64) {
    let seed = c.seed;
    let item = |i: usize| mix(seed, i as u64);
    let clear_pos = if c.clear_at == 0 { usize::MAX } else { idx(c.clear_at, n.max(1)) };
    let before = alloc::live();
    let mut failed = 0u64;
    macro_rules! finish {
        ($s:expr, $clear:expr) => {{
            let held = alloc::live() - before;
            $clear;
            let after_clear = alloc::live() - before;
            drop($s);
            (held, after_clear, failed)
        }};
    }
    let bh = GenBH(HKind::Mix(seed));
    match c.cfg {
        Cfg::Bloom { m, k } => {
            let mut s: BloomFilter<u64, GenBH> = BloomFilter::with_params_and_hash(m, k, bh);
            for i in 0..n {
                let _ = s.insert(&item(i));
                if i == clear_pos {
                    s.clear();
                }
                if c.with_merges && i % 4096 == 4095 {
                    let mut o: BloomFilter<u64, GenBH> = BloomFilter::with_params_and_hash(m, k, bh);
                    let _ = o.insert(&item(i + 1));
                    let _ = s.union(&o);
                }
            }
            finish!(s, s.clear())
        }
        Cfg::CmsU8 { w, d } => {
            let mut s: CountMinSketch<u64, u8, GenBH> = CountMinSketch::with_params_and_hasher(w, d, bh);
            for i in 0..n.min(200) {
                s.add(&item(i));
                if i == clear_pos {
                    s.clear();
                }
            }
            finish!(s, s.clear())
        }
        Cfg::CmsU16 { w, d } => {
            let mut s: CountMinSketch<u64, u16, GenBH> = CountMinSketch::with_params_and_hasher(w, d, bh);
            for i in 0..n.min(60_000) {
                s.add(&item(i));
                if i == clear_pos {
                    s.clear();
                }
            }
            finish!(s, s.clear())
        }
        Cfg::CmsU32 { w, d } => {
            let mut s: CountMinSketch<u64, u32, GenBH> = CountMinSketch::with_params_and_hasher(w, d, bh);
            for i in 0..n {
                s.add(&item(i));
                if i == clear_pos {
                    s.clear();
                }
            }
            finish!(s, s.clear())
        }
        Cfg::CmsU64 { w, d } => {
            let mut s: CountMinSketch<u64, u64, GenBH> = CountMinSketch::with_params_and_hasher(w, d, bh);
            for i in 0..n {
                s.add(&item(i));
                if i == clear_pos {
                    s.clear();
                }
                if c.with_merges && i % 4096 == 4095 {
                    let mut o: CountMinSketch<u64, u64, GenBH> = CountMinSketch::with_params_and_hasher(w, d, bh);
                    o.add(&item(i));
                    s.merge(&o);
                }
            }
            finish!(s, s.clear())
        }
        Cfg::CmsUsize { w, d } => {
            let mut s: CountMinSketch<u64, usize, GenBH> = CountMinSketch::with_params_and_hasher(w, d, bh);
            for i in 0..n {
                s.add(&item(i));
                if i == clear_pos {
                    s.clear();
                }
            }
            finish!(s, s.clear())
        }
        Cfg::Hll { b } => {
            let mut s: HyperLogLog<u64, GenBH> = HyperLogLog::with_hash(b, bh);
            for i in 0..n {
                s.add_hashed(item(i));
                if i == clear_pos {
                    s.clear();
                }
                if c.with_merges && i % 4096 == 4095 {
                    let mut o: HyperLogLog<u64, GenBH> = HyperLogLog::with_hash(b, bh);
                    o.add_hashed(item(i));
                    s.merge(&o);
                }
            }
            let _ = s.count();
            finish!(s, s.clear())
        }
        Cfg::Cuckoo { bucketsize, n_buckets, l_fp } => {
            let mut s: CuckooFilter<u64, SmRng, GenBH> = CuckooFilter::with_params_and_hash(SmRng::new(seed), bucketsize, n_buckets, l_fp, bh);
            let mut consecutive_fail = 0;
            for i in 0..n {
                if s.insert(&item(i)).is_err() {
                    failed += 1;
                    consecutive_fail += 1;
                    // a full filter fails every insert after 500 kicks: do not spend the whole stream there
                    if consecutive_fail > 20 {
                        if c.with_merges {
                            let mut o: CuckooFilter<u64, SmRng, GenBH> = CuckooFilter::with_params_and_hash(SmRng::new(seed + 1), bucketsize, n_buckets, l_fp, bh);
                            let _ = o.insert(&item(i));
                            if s.union(&o).is_err() {
                                failed += 1;
                            }
                        }
                        // make room again: delete the most recent half-table worth of items
                        let slots = bucketsize * n_buckets;
                        for j in i.saturating_sub(slots / 2)..i {
                            s.delete(&item(j));
                        }
                        consecutive_fail = 0;
                    }
                } else {
                    consecutive_fail = 0;
                }
                if i == clear_pos {
                    s.clear();
                }
            }
            finish!(s, s.clear())
        }
        Cfg::Quotient { q, r } => {
            let mut s: QuotientFilter<u64, GenBH> = QuotientFilter::with_params_and_hash(q, r, bh);
            for i in 0..n {
                if s.insert(&item(i)).is_err() {
                    failed += 1;
                    if c.with_merges && failed % 64 == 1 {
                        let mut o: QuotientFilter<u64, GenBH> = QuotientFilter::with_params_and_hash(q, r, bh);
                        let _ = o.insert(&item(i));
                        if s.union(&o).is_err() {
                            failed += 1;
                        }
                    }
                }
                if i == clear_pos {
                    s.clear();
                }
            }
            finish!(s, s.clear())
        }
        Cfg::TDigest { scale, delta, backlog } => {
            let mut s = AnyTD::new(scale, delta, backlog);
            // unit weights, or weighted inserts (constant fractional / integral weights, or mixed)
            // (also weights whose total stays subnormal, and weights of 1e300: the bound must not depend on their magnitude)
            let wmode = seed % 8;
            // arithmetic on subnormal numbers is one to two orders of magnitude slower: shorter streams for those
            // weights (still hundreds of times the capacity of the digest for the usual delta)
            let n = if wmode == 5 || wmode == 7 { n.min(30_000) } else { n };
            // one stream in twelve: a few very heavy items with small values first, then unit weights with larger
            // values, so that the tail of the digest carries about 1e-16 of the total weight per item (F15)
            let heavy_first = (seed >> 8) % 12 == 0;
            let heavy_w = [1e15f64, 3e15, 1e16, 1e14][(seed >> 12) as usize % 4];
            for i in 0..n {
                let x = (item(i) >> 11) as f64 / (1u64 << 53) as f64;
                if heavy_first {
                    if i < 10 {
                        s.insert_weighted(x * 0.1, heavy_w);
                    } else {
                        s.insert(0.5 + 0.5 * x);
                    }
                    if i == clear_pos {
                        s.clear();
                    }
                    if seed % 3 == 0 && i % 97 == 96 {
                        let _ = s.cdf(x);
                    }
                    continue;
                }
                match wmode {
                    0 | 1 => s.insert(x),
                    2 => s.insert_weighted(x, 0.5),
                    3 => s.insert_weighted(x, 3.0),
                    4 => s.insert_weighted(x, [0.25, 1.0, 1e-3, 7.5, 1e3][i % 5]),
                    5 => s.insert_weighted(x, 1e-320),
                    6 => s.insert_weighted(x, 1e300),
                    _ => s.insert_weighted(x, [5e-324, 1e-310, 1e-320][i % 3]),
                }
                if i == clear_pos {
                    s.clear();
                }
                // interleaved reads force merges
                if seed % 3 == 0 && i % 97 == 96 {
                    let _ = s.cdf(x);
                }
            }
            let _ = s.quantile(0.5);
            finish!(s, s.clear())
        }
        Cfg::Reservoir { k } => {
            let mut s: ReservoirSampling<u64, SmRng> = ReservoirSampling::new(k, SmRng::new(seed));
            for i in 0..n {
                s.add(item(i));
                if i == clear_pos {
                    s.clear();
                }
            }
            finish!(s, s.clear())
        }
        Cfg::CmsHeap { k, w, d } => {
            let mut s: CMSHeap<u64> = CMSHeap::new(k, CountMinSketch::with_params(w, d));
            for i in 0..n {
                // mostly fresh elements (churn) with some repeats
                s.add(if i % 3 == 0 { item(i / 7) } else { item(i) });
                if i == clear_pos {
                    s.clear();
                }
            }
            finish!(s, s.clear())
        }
        Cfg::Lossy { width } => {
            let mut s: LossyCounter<u64> = LossyCounter::with_width(width);
            // two stream shapes: hot elements sprinkled in, or a hot element sitting exactly on every
            // window end (the add that triggers pruning) with never-repeating elements in between
            let on_window_end = seed % 2 == 1;
            for i in 0..n {
                let x = if on_window_end {
                    // the hot element also occurs mid-window, so it is already tracked when it closes the window
                    if (i + 1) % width == 0 || (i + 1) % width == (width + 1) / 2 { item(0) } else { item(i + 1) }
                } else if i % 5 == 0 {
                    item(i % 3)
                } else {
                    item(i)
                };
                s.add(x);
                if i == clear_pos {
                    s.clear();
                }
            }
            finish!(s, s.clear())
        }
    }
}

pub struct C11;

impl Check for C11 {
    type Case = Case;
    fn name(&self) -> &'static str {
        "held_bytes"
    }
    fn eval(&self, c: &Case) -> Verdict {
        let kind = c.cfg.kind();
        let (model, factor, capacity) = c.cfg.model(c.n);
        let (held, after_clear, failed) = measure(c, c.n);
        let allowed = factor * model + 512.0;
        if held as f64 > allowed {
            return fail(
                format!("{}:held>c*model", kind),
                format!("{:?} holds {} heap bytes after {} items; the configuration accounts for {:.0} bytes (allowed {} x that + 512 = {:.0})", c.cfg, held, c.n, model, factor, allowed),
            );
        }
        // fresh instance
        let fresh = measure(&Case { n: 0, clear_at: 0, ..c.clone() }, 0).0;
        if after_clear as f64 > factor * (fresh.max(0) as f64).max(model) + 512.0 {
            return fail(
                format!("{}:held-after-clear", kind),
                format!("{:?} holds {} heap bytes after clear() (fresh instance: {}, model {:.0})", c.cfg, after_clear, fresh, model),
            );
        }
        // no growth with the stream (LossyCounter grows logarithmically by documentation)
        let mut grew = None;
        // only once the structure is saturated (n >= 10 x nominal capacity): before that, vectors are
        // legitimately still filling up to their configured bound
        if !matches!(c.cfg, Cfg::Lossy { .. }) && c.n >= 1000 && c.n <= 2_000_000 && c.n as f64 >= 10.0 * capacity {
            let (held10, _, _) = measure(&Case { clear_at: 0, ..c.clone() }, c.n * 10);
            let base = measure(&Case { clear_at: 0, ..c.clone() }, c.n).0;
            // flat arrays and vectors: 5 %; hash-map / tree based structures legitimately fluctuate with
            // bucket-count steps and node splits, a leak grows with the 10x longer stream
            // (T-Digest K2/K3 centroid counts grow with ln(n) towards delta: one Vec doubling allowed)
            let ratio = match c.cfg {
                Cfg::CmsHeap { .. } => 1.5,
                Cfg::TDigest { .. } => 2.2,
                _ => 1.05,
            };
            if held10 as f64 > ratio * base as f64 + 256.0 {
                return fail(
                    format!("{}:grows-with-stream", kind),
                    format!("{:?} holds {} bytes after {} items but {} bytes after {} items (model {:.0})", c.cfg, base, c.n, held10, c.n * 10, model),
                );
            }
            grew = Some(held10);
        }
        let long_stream = c.n as f64 >= 100.0 * capacity;
        let packed = matches!(c.cfg, Cfg::Cuckoo { l_fp, .. } if l_fp < 64) || matches!(c.cfg, Cfg::Quotient { r, .. } if r < 58);
        let detail = serde_json::json!({"cfg": format!("{:?}", c.cfg), "n": c.n, "held": held, "model": model.round(), "held_over_model": ((held as f64 / model.max(1.0)) * 100.0).round() / 100.0, "after_clear": after_clear, "held_10n": grew, "failed_ops": failed});
        let mut info = Info::new(long_stream || packed, hash_json(c))
            .class(kind)
            .class_if(long_stream, "stream>=100x_capacity")
            .class_if(packed, "packed_width<64")
            .class_if(failed > 0, "failed_operations")
            .class_if(c.clear_at != 0, "clear_in_stream");
        if held as f64 > 0.8 * allowed {
            info.detail = Some(detail);
        }
        Verdict::Pass(info)
    }
}

fn strategy(tier: Tier) -> BoxedStrategy<Case> {
    let nmax_exp = tier.pick(5u32, 6u32);
    let cfg = prop_oneof![
        2 => (6u32..=24, 1usize..=8).prop_map(|(lg, k)| Cfg::Bloom { m: 1usize << lg, k }),
        1 => (1usize..=2000, 1usize..=8, 0u8..5).prop_map(|(w, d, t)| match t { 0 => Cfg::CmsU8 { w, d }, 1 => Cfg::CmsU16 { w, d }, 2 => Cfg::CmsU32 { w, d }, 3 => Cfg::CmsU64 { w, d }, _ => Cfg::CmsUsize { w, d } }),
        2 => (4usize..=18).prop_map(|b| Cfg::Hll { b }),
        4 => (2usize..=8, 1u32..=12, prop_oneof![Just(2usize), Just(3), Just(4), Just(5), Just(8), Just(9), Just(16), Just(32), Just(63), Just(64)]).prop_map(|(bucketsize, lg, l_fp)| Cfg::Cuckoo { bucketsize, n_buckets: 1 << lg, l_fp }),
        4 => (1usize..=14, prop_oneof![Just(1usize), Just(2), Just(5), Just(8), Just(16), Just(32), Just(50)]).prop_map(|(q, r)| Cfg::Quotient { q, r: r.min(64 - q) }),
        3 => (scale(), prop_oneof![Just(1.1f64), Just(10.0), Just(100.0), Just(1000.0), 1.01f64..1000.0], prop_oneof![Just(0usize), Just(10), Just(1000), 0usize..5000]).prop_map(|(scale, delta, backlog)| Cfg::TDigest { scale, delta, backlog }),
        1 => (1usize..=5000).prop_map(|k| Cfg::Reservoir { k }),
        2 => (1usize..=300, 1usize..=512, 1usize..=4).prop_map(|(k, w, d)| Cfg::CmsHeap { k, w, d }),
        2 => (1usize..=2000).prop_map(|width| Cfg::Lossy { width }),
    ];
    (cfg, 3u32..=nmax_exp, any::<u64>(), prop_oneof![2 => Just(0u16), 1 => any::<u16>()], any::<bool>())
        .prop_map(|(cfg, e, seed, clear_at, with_merges)| {
            let mut n = 10usize.pow(e);
            // keep expensive configurations affordable
            if let Cfg::TDigest { delta, backlog, .. } = cfg {
                let per = (delta + backlog as f64 + 8.0) / (backlog as f64 + 1.0);
                n = n.min((3.0e6 / per.max(1.0)) as usize).max(1000);
            }
            if let Cfg::Quotient { q, .. } = cfg {
                // a full table scans its whole cluster on every failing insert
                n = n.min(3 * (1usize << q) + 2000);
            }
            if let Cfg::Cuckoo { bucketsize, n_buckets, .. } = cfg {
                n = n.min(40 * bucketsize * n_buckets + 2000);
            }
            Case { cfg, n, seed, clear_at, with_merges }
        })
        .boxed()
}

pub fn checks() -> Vec<Box<dyn DynCheck>> {
    vec![Box::new(C11)]
}

pub fn run(ctx: &Ctx) {
    ctx.set_rule("generated: structure x configuration grid (Bloom m = 2^6..2^24; CMS w x d on five counter types; HLL all b; Cuckoo bucketsize x n_buckets x l_fingerprint in {2,3,4,5,8,9,16,32,63,64}; Quotient q x r in {1,2,5,8,16,32,50}; TDigest scale x delta x backlog x {unit, 0.5, 3, mixed, 1e-320, 1e300, mixed subnormal, ten items of weight 1e14..1e16 followed by unit weights} weights x interleaved reads; Reservoir k; CMSHeap k x sketch; LossyCounter width) x stream length 1e3..1e5 (1e6 thorough) x optional clear() in the stream x merges/unions and failed inserts/unions on the bounded filters. Oracle: a counting global allocator (thread-local live bytes): held <= c * model(config) + 512 B (c = 2 flat arrays, 4 hash-map/tree based; model = m/8, w*d*sizeof(C), 2^b, slots*l/8, slots*(r+3)/8, (delta+backlog+4)*32, 8k, k*100+sketch, width*(H(ceil(n/width))+1)*25); held(10n) <= 1.05*held(n) + 256 B (1.5x for the hash-map/tree based CMSHeap, 2.2x for TDigest whose K2/K3 centroid count grows with ln n towards delta) for every structure except LossyCounter once n >= 10 x nominal capacity; held after clear() <= c * max(fresh, model) + 512 B. Non-trivial: stream >= 100 x nominal capacity, or packed width < 64 bits for the two packed filters. Distinct = hash of the case.");
    ctx.assume("'small constant factor' read as c = 2 (flat arrays) / c = 4 (hash-map and tree based structures)");
    ctx.run_regressions(&[&C11]);
    let t = ctx.tier;
    ctx.run_random(&C11, t.pick(1_000, 12_000), move || strategy(t));
    for k in ["bloom", "cms", "hll", "cuckoo", "quotient", "tdigest", "reservoir", "cmsheap", "lossycounter"] {
        ctx.require_class("held_bytes", k, 0.02);
    }
    ctx.require_class("held_bytes", "failed_operations", 0.1);
}
