//! C02 — CountMinSketch never underestimates and never exceeds the stream total.
use crate::engine::*;
use crate::support::filters::{key_spec, FCfg, KeySpec};
use crate::support::hashers::{GenBH, HKind};
use pdatastructs::countminsketch::CountMinSketch;
use proptest::prelude::*;
use serde::{Deserialize, Serialize};
use std::collections::BTreeMap;

#[derive(Clone, Copy, Debug, PartialEq, Eq, Hash, Serialize, Deserialize)]
pub enum CType {
    U8,
    U16,
    U32,
    U64,
    Usize,
}

#[derive(Clone, Debug, Serialize, Deserialize)]
pub enum Op {
    Add(u16),
    /// weight fraction (of the remaining head-room) in 1/65536
    AddN(u16, u16),
    /// merge a sketch built from these (key, weight fraction) adds
    Merge(Vec<(u16, u16)>),
    Clear,
}

#[derive(Clone, Debug, Serialize, Deserialize)]
pub struct Case {
    pub w: usize,
    pub d: usize,
    pub ctype: CType,
    pub hk: HKind,
    pub universe: Vec<KeySpec>,
    pub ops: Vec<Op>,
}

struct Outcome {
    collision: bool,
    merge_then_add: bool,
    n_ops: u64,
}

macro_rules! run_typed {
    ($t:ty, $c:expr) => {{
        let c: &Case = $c;
        let uni: Vec<u64> = c.universe.iter().map(|k| k.materialise(&FCfg::Set)).collect();
        let bh = GenBH(c.hk);
        let mut s: CountMinSketch<u64, $t, GenBH> = CountMinSketch::with_params_and_hasher(c.w, c.d, bh);
        let max: u128 = <$t>::MAX as u128;
        let mut truth: BTreeMap<u64, u128> = BTreeMap::new();
        let mut total: u128 = 0;
        let mut collision = false;
        let mut merged_since = false;
        let mut merge_then_add = false;
        let mut err: Option<(String, String)> = None;
        'outer: for (step, op) in c.ops.iter().enumerate() {
            let what;
            match op {
                Op::Add(i) => {
                    if total + 1 > max {
                        continue;
                    }
                    let k = uni[idx(*i, uni.len())];
                    let r = s.add(&k) as u128;
                    *truth.entry(k).or_insert(0) += 1;
                    total += 1;
                    if merged_since {
                        merge_then_add = true;
                    }
                    let q = s.query_point(&k) as u128;
                    if r != q {
                        err = Some(("add-return!=query_point".into(), format!("step {}: add({}) returned {} but query_point gives {} immediately afterwards", step, k, r, q)));
                        break 'outer;
                    }
                    what = format!("add({})", k);
                }
                Op::AddN(i, frac) => {
                    let room = max - total;
                    let n = ((room.min(1 << 40)) * (*frac as u128)) >> 16;
                    let k = uni[idx(*i, uni.len())];
                    let r = s.add_n(&k, &(n as $t)) as u128;
                    *truth.entry(k).or_insert(0) += n;
                    total += n;
                    if merged_since {
                        merge_then_add = true;
                    }
                    let q = s.query_point(&k) as u128;
                    if r != q {
                        err = Some(("add_n-return!=query_point".into(), format!("step {}: add_n({}, {}) returned {} but query_point gives {}", step, k, n, r, q)));
                        break 'outer;
                    }
                    what = format!("add_n({}, {})", k, n);
                }
                Op::Merge(items) => {
                    let mut o: CountMinSketch<u64, $t, GenBH> = CountMinSketch::with_params_and_hasher(c.w, c.d, bh);
                    let mut budget = (max - total) / 2;
                    for (i, frac) in items {
                        let n = ((budget.min(1 << 40)) * (*frac as u128)) >> 16;
                        let n = n.max(1).min(budget);
                        if n == 0 {
                            break;
                        }
                        let k = uni[idx(*i, uni.len())];
                        o.add_n(&k, &(n as $t));
                        *truth.entry(k).or_insert(0) += n;
                        total += n;
                        budget -= n;
                    }
                    s.merge(&o);
                    merged_since = true;
                    what = format!("merge(sketch of {} adds)", items.len());
                }
                Op::Clear => {
                    s.clear();
                    truth.clear();
                    total = 0;
                    merged_since = false;
                    if !s.is_empty() {
                        err = Some(("not-empty-after-clear".into(), format!("step {}: is_empty() false after clear", step)));
                        break 'outer;
                    }
                    what = "clear".to_string();
                }
            }
            let distinct = truth.values().filter(|&&v| v > 0).count();
            for &k in &uni {
                let t = truth.get(&k).copied().unwrap_or(0);
                let q = s.query_point(&k) as u128;
                if q < t {
                    err = Some(("underestimate".into(), format!("step {} ({}): query_point({}) = {} < true weight {} (w={}, d={}, {:?}, {:?})", step, what, k, q, t, c.w, c.d, c.ctype, c.hk)));
                    break 'outer;
                }
                if q > total {
                    err = Some(("exceeds-total".into(), format!("step {} ({}): query_point({}) = {} > total stream weight {}", step, what, k, q, total)));
                    break 'outer;
                }
                if q > t {
                    collision = true;
                }
                if distinct == 1 && t > 0 && q != t {
                    err = Some(("single-element-not-exact".into(), format!("step {} ({}): the stream holds the single distinct element {} with weight {} but query_point = {}", step, what, k, t, q)));
                    break 'outer;
                }
            }
            if (total == 0) != s.is_empty() && distinct == 0 && total == 0 && !s.is_empty() {
                err = Some(("is_empty".into(), format!("step {}: is_empty() = false with nothing added", step)));
                break 'outer;
            }
        }
        match err {
            Some(e) => Err(e),
            None => Ok(Outcome { collision, merge_then_add, n_ops: c.ops.len() as u64 }),
        }
    }};
}

pub struct C02;

impl Check for C02 {
    type Case = Case;
    fn name(&self) -> &'static str {
        "history"
    }
    fn eval(&self, c: &Case) -> Verdict {
        let r: Result<Outcome, (String, String)> = match c.ctype {
            CType::U8 => run_typed!(u8, c),
            CType::U16 => run_typed!(u16, c),
            CType::U32 => run_typed!(u32, c),
            CType::U64 => run_typed!(u64, c),
            CType::Usize => run_typed!(usize, c),
        };
        match r {
            Err((sig, msg)) => fail(sig, msg),
            Ok(o) => {
                let nontrivial = o.collision || o.merge_then_add || (c.w != c.d && c.d >= 2);
                let mut info = Info::new(nontrivial, hash_json(c))
                    .class_if(o.collision, "overestimate_observed")
                    .class_if(o.merge_then_add, "merge_then_add")
                    .class_if(c.w != c.d, "w!=d")
                    .class(match c.ctype {
                        CType::U8 => "u8",
                        CType::U16 => "u16",
                        CType::U32 => "u32",
                        CType::U64 => "u64",
                        CType::Usize => "usize",
                    });
                info.inner_evals = o.n_ops;
                Verdict::Pass(info)
            }
        }
    }
}

fn strategy(tier: Tier) -> BoxedStrategy<Case> {
    let maxops = tier.pick(80usize, 400usize);
    (
        prop_oneof![160 => 1usize..=64, 20 => 1usize..=3000, 1 => prop_oneof![Just(65_535usize), Just(65_536), Just(65_537), Just(1usize << 20), Just((1usize << 20) + 1)]],
        prop_oneof![16 => 1usize..=8, 2 => 1usize..=24, 1 => prop_oneof![Just(63usize), Just(64), Just(65), Just(128), Just(129), Just(255), Just(256), Just(257), 25usize..=300]],
        prop_oneof![Just(CType::U8), Just(CType::U16), Just(CType::U32), Just(CType::U64), Just(CType::Usize)],
        prop_oneof![2 => Just(HKind::Sip), 1 => (0u64..50).prop_map(HKind::Seeded), 4 => Just(HKind::Split), 1 => (0u64..70).prop_map(HKind::Const), 1 => (1u64..9).prop_map(HKind::Mod), 1 => Just(HKind::Ident), 1 => any::<u64>().prop_map(HKind::Mix)],
        prop::collection::vec(key_spec(), 1..32),
        prop::collection::vec(
            prop_oneof![
                8 => any::<u16>().prop_map(Op::Add),
                4 => (any::<u16>(), prop_oneof![0u16..64, any::<u16>()]).prop_map(|(k, f)| Op::AddN(k, f)),
                2 => prop::collection::vec((any::<u16>(), prop_oneof![0u16..64, any::<u16>()]), 0..10).prop_map(Op::Merge),
                1 => Just(Op::Clear),
            ],
            0..maxops,
        ),
    )
        .prop_map(|(w, d, ctype, hk, universe, mut ops)| {
            // a very wide sketch costs megabytes per (re)allocation: few rows, short histories
            let d = if w > 3000 { d.min(2) } else { d };
            let w = if d > 24 { w.min(64) } else { w };
            if w > 3000 {
                ops.truncate(25);
            }
            Case { w, d, ctype, hk, universe, ops }
        })
        .boxed()
}

pub fn checks() -> Vec<Box<dyn DynCheck>> {
    vec![Box::new(C02), Box::new(super::extendpaths::ExtCms), Box::new(super::extendpaths::HashIterCheck), Box::new(super::giant::Giant), Box::new(HeavyMerge)]
}

pub fn run(ctx: &Ctx) {
    ctx.set_rule("generated: w in 1..=64 (rarely up to 3000, very rarely 65535..65537, 2^20, 2^20+1), d in 1..=8 (rarely up to 24, very rarely up to 300 incl. 63..65, 128, 129, 255..257; w != d in most cases, both w > d and d > w), counter type in {u8,u16,u32,u64,usize}, hashers incl. row colliders (Split with chosen h1/h2, Const, Mod), universe <=32 keys, history of add/add_n/merge/clear with weights scaled to the remaining head-room so the documented overflow panic is never provoked. After every op, for every universe key: true(x) <= query_point(x) <= N; add/add_n return == query_point right after; a single distinct element is exact. Non-trivial: an overestimate was observed (two keys share a cell in every row), or a merge followed by an add, or w != d with d >= 2. Distinct = hash of the case; evaluations = operations executed. extend_path: default-hasher CountMinSketch (w 1..64, d 1..4) fed through Extend::extend in generated chunks: query_point never below the true count after any chunk and equal to a sketch filled by add calls. hash_iter: HashIterBuilder::new(m, k, hasher) for m in 1..2^31 and k in 0..=40 under the generated hasher families: iter_for yields exactly k values, all in [0, m), deterministically, f(i) in [0, m), and values #2.. equal (h1 + i*h2 + f(i)) mod m with h1, h2 solved from values #0 and #1 (the documented enhanced double hashing). giant_tables: u8 sketches with w = 2^31+3, 2^32+1 (d = 1) and 2^30 (d = 3): getters, add's return value == query_point, true <= query_point <= N for 60 keys. heavy_disjoint_merge: two sketches (w 2..1024, d 1..5, every counter type) each holding one element with a count between 1/2 and 1 of the counter maximum, the two elements sharing no cell in any row (cells computed through the public HashIterBuilder): merge must not panic and both counts are reported exactly.");
    ctx.assume("weights never overflow the counter type (checked_add panic is documented behaviour and not generated)");
    ctx.run_regressions(&[&C02]);
    let t = ctx.tier;
    ctx.run_random(&C02, t.pick(600_000, 5_000_000), move || strategy(t));
    // the Extend entry point of the default-hasher CountMinSketch
    ctx.run_random(&super::extendpaths::ExtCms, t.pick(30_000, 300_000), super::extendpaths::cms_strategy);
    // the documented contract of the hash iterator both CountMinSketch and BloomFilter index with
    ctx.run_random(&super::extendpaths::HashIterCheck, t.pick(60_000, 600_000), super::extendpaths::hash_iter_strategy);
    ctx.run_fixed(&super::giant::Giant, super::giant::cms_cases(ctx.seed));
    ctx.run_random(&HeavyMerge, t.pick(20_000, 200_000), heavy_strategy);
    ctx.require_class("history", "overestimate_observed", 0.2);
    ctx.require_class("history", "merge_then_add", 0.2);
    ctx.require_class("history", "w!=d", 0.6);
    if ctx.tier == Tier::Thorough && !ctx.failed() {
        // coverage-guided search over the same case space (libFuzzer, 8 parallel campaigns)
        crate::engine::fuzz::run_sketch_ops(ctx, 0, 480_000);
    }
}

// ---------------------------------------------------------------- merges of heavy, cell-disjoint sketches

/// Two sketches, each holding one heavy element with a count close to the counter type's maximum, whose cells are
/// disjoint in every row (found through the public `HashIterBuilder`): no merged cell overflows, so `merge` must
/// succeed and report both counts exactly, although the two largest counters together exceed the type's range.
#[derive(Clone, Debug, Serialize, Deserialize)]
pub struct HeavyCase {
    pub w: usize,
    pub d: usize,
    pub ctype: CType,
    pub seed: u64,
    /// weights as fractions of the counter maximum, in 1/65536
    pub fa: u16,
    pub fb: u16,
}

pub struct HeavyMerge;

macro_rules! heavy_typed {
    ($t:ty, $c:expr) => {{
        let c: &HeavyCase = $c;
        let bh = GenBH(HKind::Seeded(c.seed % 1000));
        let it = pdatastructs::hash_utils::HashIterBuilder::new(c.w, c.d, bh);
        let cells = |x: u64| -> Vec<usize> { it.iter_for(&x).collect() };
        let x = mix(c.seed, 1);
        let cx = cells(x);
        // a second key sharing no cell with the first in any row
        let y = (0..10_000u64).map(|i| mix(c.seed, 100 + i)).find(|y| cells(*y).iter().zip(cx.iter()).all(|(a, b)| a != b));
        match y {
            None => Ok(false),
            Some(y) => {
                let max = <$t>::MAX as u128;
                let wa = ((max * (32768 + c.fa as u128 / 2)) >> 16).max(1) as $t;
                let wb = ((max * (32768 + c.fb as u128 / 2)) >> 16).max(1) as $t;
                let mut a: CountMinSketch<u64, $t, GenBH> = CountMinSketch::with_params_and_hasher(c.w, c.d, bh);
                let mut b: CountMinSketch<u64, $t, GenBH> = CountMinSketch::with_params_and_hasher(c.w, c.d, bh);
                a.add_n(&x, &wa);
                b.add_n(&y, &wb);
                match catch(|| {
                    a.merge(&b);
                    (a.query_point(&x), a.query_point(&y))
                }) {
                    Err(p) => Err((format!("heavy-merge-{}", panic_sig(&p)), format!("merge of two sketches whose heavy elements ({} and {} of a maximum of {}) share no cell panicked: {} [w={}, d={}]", wa, wb, max, p, c.w, c.d))),
                    Ok((qx, qy)) => {
                        if qx != wa || qy != wb {
                            Err(("heavy-merge:counts".into(), format!("after the merge query_point gives {} and {} for elements added with weights {} and {} (no shared cell) [w={}, d={}]", qx, qy, wa, wb, c.w, c.d)))
                        } else {
                            Ok(true)
                        }
                    }
                }
            }
        }
    }};
}

impl Check for HeavyMerge {
    type Case = HeavyCase;
    fn name(&self) -> &'static str {
        "heavy_disjoint_merge"
    }
    fn eval(&self, c: &HeavyCase) -> Verdict {
        let r: Result<bool, (String, String)> = match c.ctype {
            CType::U8 => heavy_typed!(u8, c),
            CType::U16 => heavy_typed!(u16, c),
            CType::U32 => heavy_typed!(u32, c),
            CType::U64 => heavy_typed!(u64, c),
            CType::Usize => heavy_typed!(usize, c),
        };
        match r {
            Err((sig, msg)) => fail(sig, msg),
            Ok(found) => Verdict::Pass(Info::new(found, hash_json(c)).class_if(found, "disjoint_pair_found").class_if(!found, "no_disjoint_pair")),
        }
    }
}

pub fn heavy_strategy() -> BoxedStrategy<HeavyCase> {
    (2usize..=1024, 1usize..=5, prop_oneof![Just(CType::U8), Just(CType::U16), Just(CType::U32), Just(CType::U64), Just(CType::Usize)], any::<u64>(), any::<u16>(), any::<u16>())
        .prop_map(|(w, d, ctype, seed, fa, fb)| HeavyCase { w, d, ctype, seed, fa, fb })
        .boxed()
}
