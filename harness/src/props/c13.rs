//! C13 — QuotientFilter is an exact set over fingerprint classes.
use crate::engine::*;
use crate::support::filters::*;
use crate::support::hashers::HKind;
use proptest::prelude::*;
use serde::{Deserialize, Serialize};
use serde_json::json;
use std::collections::BTreeSet;

#[derive(Clone, Debug, Serialize, Deserialize)]
pub struct Case {
    pub q: usize,
    pub r: usize,
    pub hk: HKind,
    pub universe: Vec<KeySpec>,
    /// inserts (indices into the universe)
    pub ops: Vec<u16>,
}

/// Under Ident: does the class set (given as (quotient, remainder) pairs) contain a shifted run,
/// a wrap-around, or a full table?  Returns (shifted_run, wraps).
pub fn layout(q: usize, quots: &[usize]) -> (bool, bool) {
    let n = 1usize << q;
    let mut c = vec![0usize; n];
    for &x in quots {
        c[x % n] += 1;
    }
    // pending(j) = carry_in + c[j]; one element is placed in slot j, the rest is carried on.
    // Three laps reach the fixed point of carry_in(0) = carry_out(n-1) for a non-full table.
    let mut carry = 0usize;
    let mut shifted = false;
    let mut wraps = false;
    for i in 0..3 * n {
        let j = i % n;
        if carry > 0 && c[j] > 0 {
            shifted = true;
        }
        carry = (carry + c[j]).saturating_sub(1);
        if j == n - 1 {
            if carry > 0 {
                wraps = true;
            }
            carry = carry.min(n); // full tables: keep the number bounded
        }
    }
    (shifted, wraps)
}

/// Run one insertion history against the class-set model. Universe keys, behavioural classes.
/// Returns Err((sig,msg)) or Ok((max_classes, full_reached, n_ops)).
fn run_history(cfg: &FCfg, hk: HKind, uni: &[u64], cls: &[usize], ops: &[usize]) -> Result<(usize, bool), (String, String)> {
    let FCfg::Quotient { q, .. } = *cfg else { unreachable!() };
    let cap = 1usize << q;
    let rng = RngSpec { script: vec![], tail: 0 };
    let mut f = AnyFilter::new(cfg, hk, &rng);
    let mut model: BTreeSet<usize> = BTreeSet::new();
    let mut full = false;
    if !f.is_empty() || f.len() != 0 {
        return Err(("fresh-not-empty".into(), "fresh filter is not empty".into()));
    }
    for (step, &i) in ops.iter().enumerate() {
        let k = uni[i];
        let c = cls[i];
        let known = model.contains(&c);
        let res = f.insert(k);
        let expect: Result<bool, ()> = if known {
            Ok(false)
        } else if model.len() == cap {
            Err(())
        } else {
            Ok(true)
        };
        if res != expect {
            let sig = match (expect, res) {
                (Ok(false), Ok(true)) => "known-class-reported-new",
                (Ok(false), Err(())) => "known-class-into-full-table-errs",
                (Ok(true), Ok(false)) => "new-class-reported-known",
                (Ok(true), Err(())) => "full-before-capacity",
                (Err(()), _) => "no-Full-at-capacity",
                _ => "insert-result",
            };
            return Err((
                format!("insert:{}", sig),
                format!("step {}: insert({}) [class {}] returned {:?}, model expects {:?}; model holds {} classes, capacity {}", step, k, c, res, expect, model.len(), cap),
            ));
        }
        if res == Ok(true) {
            model.insert(c);
        }
        if model.len() == cap {
            full = true;
        }
        if f.len() != model.len() {
            return Err(("len!=classes".into(), format!("step {}: len() = {} but {} distinct classes were inserted", step, f.len(), model.len())));
        }
        if f.is_empty() != model.is_empty() {
            return Err(("is_empty".into(), format!("step {}: is_empty() = {} with {} classes", step, f.is_empty(), model.len())));
        }
        for (j, &y) in uni.iter().enumerate() {
            let want = model.contains(&cls[j]);
            let got = f.query(y);
            if got != want {
                let sig = if want { "false-negative" } else { "phantom-positive" };
                return Err((
                    format!("query:{}", sig),
                    format!("step {} (after insert({}) -> {:?}): query({}) = {} but class {} is {} the model {:?}", step, k, res, y, got, cls[j], if want { "in" } else { "not in" }, model),
                ));
            }
        }
    }
    Ok((model.len(), full))
}

pub struct Random;

impl Check for Random {
    type Case = Case;
    fn name(&self) -> &'static str {
        "random_history"
    }
    fn eval(&self, c: &Case) -> Verdict {
        let cfg = FCfg::Quotient { q: c.q, r: c.r };
        let uni: Vec<u64> = c.universe.iter().map(|k| k.materialise(&cfg)).collect();
        let cls = match classes(&cfg, c.hk, &uni) {
            Ok(x) => x,
            Err(e) => return fail("classes-not-equivalence", e),
        };
        let ops: Vec<usize> = c.ops.iter().map(|&i| idx(i, uni.len())).collect();
        match run_history(&cfg, c.hk, &uni, &cls, &ops) {
            Err((sig, msg)) => fail(sig, format!("{} [q={} r={} hasher={:?}]", msg, c.q, c.r, c.hk)),
            Ok((nclasses, full)) => {
                // layout classification (exact under Ident, where quotient = bits r.. of the key)
                let (mut shifted, mut wraps) = (false, false);
                if c.hk == HKind::Ident {
                    let mut seen = BTreeSet::new();
                    let mut quots = vec![];
                    for &i in &ops {
                        if seen.insert(cls[i]) && seen.len() <= (1 << c.q) {
                            let fp = if c.q + c.r >= 64 { uni[i] } else { uni[i] & ((1u64 << (c.q + c.r)) - 1) };
                            quots.push((fp >> c.r) as usize);
                        }
                    }
                    let l = layout(c.q, &quots);
                    shifted = l.0;
                    wraps = l.1;
                }
                let nontrivial = (nclasses >= 3 && shifted) || full || wraps;
                let seq: Vec<usize> = ops.iter().map(|&i| cls[i]).collect();
                let mut info = Info::new(nontrivial, hash64(&(c.q, c.r, &seq, c.hk)))
                    .class_if(full, "table_full")
                    .class_if(shifted, "shifted_run")
                    .class_if(wraps, "wraps_ring_end")
                    .class_if(c.hk == HKind::Ident, "ident_hasher");
                info.inner_evals = ops.len() as u64;
                Verdict::Pass(info)
            }
        }
    }
}

/// A replayable exhaustive case: explicit sequence of fingerprint values with trash.
#[derive(Clone, Debug, Serialize, Deserialize)]
pub struct SeqCase {
    pub q: usize,
    pub r: usize,
    pub trash_seed: u64,
    pub seq: Vec<u32>,
}

fn exh_universe(q: usize, r: usize, trash_seed: u64) -> Vec<u64> {
    // two keys per fingerprint value, differing in the high "trash" bits
    let nfp = 1u64 << (q + r);
    let mut u = vec![];
    for v in 0..2u64 {
        for fp in 0..nfp {
            let trash = if v == 0 { 0 } else { mix(trash_seed, fp) | 1 };
            u.push(fp | (trash << (q + r)));
        }
    }
    u
}

pub struct Seq;

impl Check for Seq {
    type Case = SeqCase;
    fn name(&self) -> &'static str {
        "exhaustive_sequences"
    }
    fn eval(&self, c: &SeqCase) -> Verdict {
        let cfg = FCfg::Quotient { q: c.q, r: c.r };
        let uni = exh_universe(c.q, c.r, c.trash_seed);
        let cls = match classes(&cfg, HKind::Ident, &uni) {
            Ok(x) => x,
            Err(e) => return fail("classes-not-equivalence", e),
        };
        let nfp = 1usize << (c.q + c.r);
        let ops: Vec<usize> = c.seq.iter().enumerate().map(|(pos, &fp)| (fp as usize % nfp) + if pos % 2 == 1 { nfp } else { 0 }).collect();
        match run_history(&cfg, HKind::Ident, &uni, &cls, &ops) {
            Err((sig, msg)) => fail(sig, msg),
            Ok((n, full)) => Verdict::Pass(Info::new(full || n >= 3, hash64(&(c.q, c.r, &c.seq)))),
        }
    }
}

/// DFS over all sequences with a shared prefix filter (clone per branch).
struct Dfs<'a> {
    q: usize,
    r: usize,
    uni: &'a [u64],
    cls: &'a [usize],
    nfp: usize,
    max_len: usize,
    trash_seed: u64,
}

impl<'a> Dfs<'a> {
    fn go(&self, f: &AnyFilter, model: u32, seq: &mut Vec<u32>, acc: &mut Acc) -> Option<(serde_json::Value, String, String)> {
        if seq.len() == self.max_len {
            return None;
        }
        let cap = 1usize << self.q;
        for fp in 0..self.nfp {
            let mut g = f.deep_clone();
            let pos = seq.len();
            let ui = fp + if pos % 2 == 1 { self.nfp } else { 0 };
            let k = self.uni[ui];
            let c = self.cls[ui];
            let known = model & (1 << c) != 0;
            let nmodel = model.count_ones() as usize;
            let expect: Result<bool, ()> = if known { Ok(false) } else if nmodel == cap { Err(()) } else { Ok(true) };
            let res = g.insert(k);
            seq.push(fp as u32);
            let mut bad: Option<(String, String)> = None;
            let m2 = if res == Ok(true) { model | (1 << c) } else { model };
            if res != expect {
                bad = Some(("insert:result".into(), format!("insert of fingerprint {} returned {:?}, model expects {:?}", fp, res, expect)));
            } else if g.len() != m2.count_ones() as usize || g.is_empty() != (m2 == 0) {
                bad = Some(("len!=classes".into(), format!("len() = {} with {} classes", g.len(), m2.count_ones())));
            } else {
                for (j, &y) in self.uni.iter().enumerate() {
                    let want = m2 & (1 << self.cls[j]) != 0;
                    if g.query(y) != want {
                        bad = Some((
                            format!("query:{}", if want { "false-negative" } else { "phantom-positive" }),
                            format!("query({}) = {} but model says {}", y, !want, want),
                        ));
                        break;
                    }
                }
            }
            if let Some((sig, msg)) = bad {
                let case = SeqCase { q: self.q, r: self.r, trash_seed: self.trash_seed, seq: seq.clone() };
                // re-derive the precise signature through the replayable oracle
                let (sig, msg) = match Seq.eval(&case) {
                    Verdict::Fail { sig, msg } => (sig, msg),
                    _ => (sig, msg),
                };
                return Some((serde_json::to_value(&case).unwrap(), sig, msg));
            }
            // classification
            let full = m2.count_ones() as usize == cap;
            let quots: Vec<usize> = (0..self.nfp).filter(|c| m2 & (1 << self.cls[*c]) != 0).map(|fp| fp >> self.r).collect();
            let (shifted, wraps) = layout(self.q, &quots);
            let nontrivial = (m2.count_ones() >= 3 && shifted) || full || wraps;
            let (q, r) = (self.q, self.r);
            let s = &*seq;
            acc.pass_enum(nontrivial, || json!({"q": q, "r": r, "insert_fingerprints": s}));
            if full {
                acc.class("table_full");
            }
            if shifted {
                acc.class("shifted_run");
            }
            if wraps {
                acc.class("wraps_ring_end");
            }
            if let Some(x) = self.go(&g, m2, seq, acc) {
                return Some(x);
            }
            seq.pop();
        }
        None
    }
}

fn exhaustive_sequences(ctx: &Ctx, q: usize, r: usize, max_len: usize) {
    let cfg = FCfg::Quotient { q, r };
    let trash_seed = mix(ctx.seed, (q * 100 + r) as u64);
    let uni = exh_universe(q, r, trash_seed);
    let cls = match classes(&cfg, HKind::Ident, &uni) {
        Ok(x) => x,
        Err(e) => {
            ctx.handle_fail("exhaustive_sequences", &json!({"q": q, "r": r}), "classes-not-equivalence", &e, None);
            return;
        }
    };
    let nfp = 1usize << (q + r);
    // check the behavioural classes are what Ident predicts: the two variants of each fingerprint share a class
    for fp in 0..nfp {
        if cls[fp] != cls[fp + nfp] || cls[fp] >= 32 {
            ctx.handle_fail(
                "exhaustive_sequences",
                &json!({"q": q, "r": r, "fingerprint": fp}),
                "trash-bits-not-ignored",
                &format!("keys {} and {} differ only above bit {} but are distinguishable", uni[fp], uni[fp + nfp], q + r),
                None,
            );
            return;
        }
    }
    let dfs = Dfs { q, r, uni: &uni, cls: &cls, nfp, max_len, trash_seed };
    let rng = RngSpec { script: vec![], tail: 0 };
    // parallelise over the first two inserts
    let n = if max_len >= 2 { nfp * nfp } else { nfp };
    ctx.run_indexed("exhaustive_sequences", n, |i, acc| {
        let f = AnyFilter::new(&cfg, HKind::Ident, &rng);
        let mut seq: Vec<u32> = vec![];
        let (a, b) = (i / nfp, i % nfp);
        // replay the two-insert prefix through the sequential oracle (checked by its own DFS branch)
        let prefix: Vec<u32> = if max_len >= 2 { vec![a as u32, b as u32] } else { vec![b as u32] };
        let mut g = f;
        let mut model = 0u32;
        for (pos, &fp) in prefix.iter().enumerate() {
            let ui = fp as usize + if pos % 2 == 1 { nfp } else { 0 };
            if g.insert(uni[ui]) == Ok(true) {
                model |= 1 << cls[ui];
            }
            seq.push(fp);
        }
        // the prefix itself is validated once by the Seq oracle (cheap)
        if let Verdict::Fail { sig, msg } = Seq.eval(&SeqCase { q, r, trash_seed, seq: seq.clone() }) {
            return Some((serde_json::to_value(SeqCase { q, r, trash_seed, seq }).unwrap(), sig, msg));
        }
        acc.pass_light(false, hash64(&(q, r, &seq[..])), || json!({"q": q, "r": r, "insert_fingerprints": seq}));
        dfs.go(&g, model, &mut seq, acc)
    });
    ctx.mark_exhaustive(
        "exhaustive_sequences",
        format!("every insertion sequence over all {} fingerprint values of (q={}, r={}) up to length {} (Ident hasher, alternating trash bits), full query sweep after every insert", nfp, q, r, max_len),
    );
}

/// Every subset of the 2^(q+r) classes, inserted in several orders, followed by one more insert
/// of every class.
fn exhaustive_subsets(ctx: &Ctx, q: usize, r: usize, n_orders: usize) {
    let nfp = 1usize << (q + r);
    let trash_seed = mix(ctx.seed, (q * 100 + r) as u64 + 7);
    let total = 1usize << nfp;
    ctx.run_indexed("exhaustive_subsets", total, |mask, acc| {
        let members: Vec<u32> = (0..nfp as u32).filter(|b| mask & (1 << b) != 0).collect();
        for ord in 0..n_orders {
            let mut seq = members.clone();
            match ord {
                0 => {}
                1 => seq.reverse(),
                _ => {
                    let mut rng = stat::SplitMix64(mix(trash_seed, (mask * 16 + ord) as u64));
                    for i in (1..seq.len()).rev() {
                        let j = rng.below(i as u64 + 1) as usize;
                        seq.swap(i, j);
                    }
                }
            }
            // one more insert of every class (known ones -> Ok(false) also when full; new ones -> Full or Ok(true))
            let rot = (mask + ord) % nfp;
            for i in 0..nfp {
                seq.push(((i + rot) % nfp) as u32);
            }
            let case = SeqCase { q, r, trash_seed, seq };
            match Seq.eval(&case) {
                Verdict::Fail { sig, msg } => return Some((serde_json::to_value(&case).unwrap(), sig, msg)),
                Verdict::Pass(info) => {
                    let s = &case.seq;
                    acc.pass_light(info.nontrivial, info.key, || json!({"q": q, "r": r, "insert_fingerprints": s}));
                }
            }
        }
        None
    });
    ctx.mark_exhaustive(
        "exhaustive_subsets",
        format!("every subset of the {} classes of (q={}, r={}) in {} orders (sorted, reverse, generated), each followed by one more insert of every class", nfp, q, r, n_orders),
    );
}

fn strategy(tier: Tier) -> BoxedStrategy<Case> {
    let qmax = tier.pick(6usize, 8usize);
    // remainder widths: small ones, wide ones, and widths that make bits_quotient + bits_remainder 62, 63 or 64
    // (codes >= 100 mean 64 - q - (code - 100))
    (1usize..=qmax, prop_oneof![6 => 1usize..=8, 1 => Just(16usize), 1 => Just(32), 1 => Just(56), 1 => Just(100usize), 1 => Just(101), 1 => Just(102)], prop_oneof![4 => Just(HKind::Ident), 2 => Just(HKind::Sip), 1 => (1u64..40).prop_map(HKind::Mod), 1 => any::<u64>().prop_map(HKind::Mix)])
        .prop_flat_map(move |(q, r, hk)| {
            let r = if r >= 100 { 64 - q - (r - 100) } else { r.min(64 - q) };
            let cap = 1usize << q;
            let umax = (cap * 3 / 2 + 6).min(tier.pick(120, 400));
            let opmax = (cap * 2 + 8).min(tier.pick(200, 700));
            (
                Just(q),
                Just(r),
                Just(hk),
                prop::collection::vec(
                    prop_oneof![
                        6 => (any::<u16>(), 0u16..5, any::<u64>()).prop_map(|(quot, rem, trash)| KeySpec::QR { quot, rem, trash }),
                        3 => (0u8..3, 0u16..5, any::<u64>()).prop_map(|(back, rem, trash)| KeySpec::QREnd { back, rem, trash }),
                        1 => any::<u64>().prop_map(KeySpec::Raw),
                        1 => (0u8..60).prop_map(KeySpec::Small),
                    ],
                    1..umax,
                ),
                prop::collection::vec(any::<u16>(), 0..opmax),
            )
        })
        .prop_map(|(q, r, hk, universe, ops)| Case { q, r, hk, universe, ops })
        .boxed()
}

/// One long run (40..220 classes sharing a quotient, so that whole 64-slot blocks of the slot metadata are
/// continuations) in a table of 128..1024 slots under the Ident hasher, with a predecessor bucket and a few
/// following buckets that are filled while the run is still short; optionally the run starts just before the
/// ring end. The (quotient, remainder) placement goes through the same KeySpec::QR as everywhere.
pub fn long_run_case(q: usize, rcode: usize, base: u16, len: u16, followers: u8, back: u8, seed: u64) -> Case {
    let r = if rcode >= 100 { 64 - q } else { rcode };
    let shift = 16 - q as u32; // KeySpec::QR maps quot -> quot >> (16 - q)
    let nq = 1u32 << q;
    let b = if back > 0 { nq - back as u32 } else { base as u32 >> shift };
    let quot_raw = |i: u32| ((i % nq) << shift) as u16;
    let len = (len as u32).min(if r >= 8 { 220 } else { 120 });
    let mut universe = vec![];
    for d in 1..=(1 + followers as u32) {
        for rem in 0..2u16 {
            universe.push(KeySpec::QR { quot: quot_raw(b + d), rem, trash: mix(seed, (d * 2 + rem as u32) as u64) });
        }
    }
    universe.push(KeySpec::QR { quot: quot_raw(b + nq - 1), rem: 1, trash: mix(seed, 999) });
    let nv = universe.len();
    for i in 0..len {
        universe.push(KeySpec::QR { quot: quot_raw(b), rem: i as u16, trash: mix(seed, 1000 + i as u64) });
    }
    let n = universe.len();
    let pick = |j: usize| (((j << 16) + n - 1) / n) as u16; // idx(pick(j), n) == j
    // order: three run elements, the victims, the rest of the run in a seeded order, finally some re-inserts
    let mut ops: Vec<u16> = vec![pick(nv), pick(nv + 1), pick(nv + 2)];
    ops.extend((0..nv).map(pick));
    let mut rest: Vec<usize> = (nv + 3..n).collect();
    let mut g = stat::SplitMix64(seed);
    for i in (1..rest.len()).rev() {
        rest.swap(i, g.below(i as u64 + 1) as usize);
    }
    ops.extend(rest.iter().map(|&j| pick(j)));
    ops.extend([pick(0), pick(nv), pick(n - 1)]);
    Case { q, r, hk: HKind::Ident, universe, ops }
}

fn long_run_strategy() -> BoxedStrategy<Case> {
    (7usize..=10, prop_oneof![Just(7usize), Just(8), Just(16), Just(100usize)], any::<u16>(), 40u16..220, 0u8..4, prop_oneof![3 => Just(0u8), 1 => 1u8..3], any::<u64>())
        .prop_map(|(q, rcode, base, len, followers, back, seed)| long_run_case(q, rcode, base, len, followers, back, seed))
        .boxed()
}

pub fn checks() -> Vec<Box<dyn DynCheck>> {
    vec![Box::new(Random), Box::new(Seq), Box::new(super::extendpaths::DefaultCtors), Box::new(super::giant::Giant)]
}

pub fn run(ctx: &Ctx) {
    ctx.set_rule("(a) exhaustive: with the Ident hasher every insertion sequence over all 2^(q+r) fingerprint values up to a length bound, and every subset of classes in several orders followed by one more insert of every class; (b) generated: q in 1..=6 (8 thorough), r in {1..8,16,32,56, 62-q, 63-q, 64-q}, Ident/Sip/Mod/Mix hashers, universes of up to 1.5x capacity keys placed by (quotient, remainder) incl. ring-end quotients, insert histories up to 2x capacity; 4 % of the cases are one run of 40..220 classes sharing a quotient in a table of 2^7..2^10 slots (r in {7, 8, 16, 64-q}), with neighbouring buckets filled while the run is short, optionally starting just before the ring end. Oracle after every insert: result, len, is_empty and query of EVERY universe key (presence and absence) equal the behaviourally computed class-set model. Non-trivial: model holds >=3 classes with some run shifted from its canonical slot, or the table is full, or a cluster wraps past the last slot (exhaustive part: computed from the class set under Ident). Distinct = (q, r, ordered class sequence). default_constructors: QuotientFilter::with_params (no hasher argument) for q in 1..=8 and every r in 1..=64 - q against with_params_and_hash given BuildHasherDefault<DefaultHasher>: bits_quotient()/bits_remainder() echo the arguments and insert/len/query agree on up to 300 keys and 300 probes. giant_tables: (q, r) in {(30,5), (31,2), (32,1), (33,1)} under the Ident hasher with classes at quotients 0, 5..7, 2^q/2 (-1), 2^31 (+-1), 2^32-1, 2^q-2, 2^q-1 (a run wrapping the ring end) and up to three remainders each: Ok(true)/Ok(false), len, no false negative, no never-inserted class reported.");
    ctx.assume("fingerprint classes computed behaviourally: x ~ y iff a fresh filter holding only x reports y (checked to be an equivalence)");
    ctx.run_regressions(&[&Random, &Seq]);
    let t = ctx.tier;
    // (q, r, max_len)
    let seq_cfgs: &[(usize, usize, usize)] = match t {
        Tier::Quick => &[(1, 1, 7), (2, 1, 6), (1, 2, 6), (2, 2, 5), (3, 1, 4), (1, 3, 4)],
        Tier::Thorough => &[(1, 1, 9), (2, 1, 7), (1, 2, 7), (2, 2, 6), (3, 1, 6), (1, 3, 6)],
    };
    for &(q, r, l) in seq_cfgs {
        if ctx.failed() {
            break;
        }
        exhaustive_sequences(ctx, q, r, l);
    }
    let subset_cfgs: &[(usize, usize, usize)] = match t {
        Tier::Quick => &[(2, 1, 5), (1, 2, 5), (2, 2, 3), (3, 1, 3)],
        Tier::Thorough => &[(2, 1, 5), (1, 2, 5), (2, 2, 5), (3, 1, 5), (1, 3, 5)],
    };
    for &(q, r, o) in subset_cfgs {
        if ctx.failed() {
            break;
        }
        exhaustive_subsets(ctx, q, r, o);
    }
    if !ctx.failed() {
        ctx.run_random(&Random, t.pick(300_000, 3_000_000), move || prop_oneof![24 => strategy(t), 1 => long_run_strategy()].boxed());
        ctx.require_class("random_history", "table_full", 0.1);
        ctx.require_class("random_history", "wraps_ring_end", 0.03);
        ctx.require_class("random_history", "shifted_run", 0.2);
        // QuotientFilter::with_params (default hasher): getters and behaviour equal to with_params_and_hash
        ctx.run_random(&super::extendpaths::DefaultCtors, t.pick(3_000, 30_000), || super::extendpaths::default_ctor_strategy(&[7]));
        ctx.run_fixed(&super::giant::Giant, super::giant::quotient_cases());
    }
    if ctx.tier == Tier::Thorough && !ctx.failed() {
        crate::engine::fuzz::run_filter_ops(ctx, 1, 160_000);
    }
}
