//! C04 — T-Digest rank accuracy and bounded size for every scale function.
use crate::engine::stat::SplitMix64;
use crate::engine::*;
use crate::support::td::*;
use proptest::prelude::*;
use serde::{Deserialize, Serialize};

#[derive(Clone, Copy, Debug, PartialEq, Eq, Hash, Serialize, Deserialize)]
pub enum Family {
    // smooth densities
    Uniform,
    Normal,
    Exponential,
    SortedUniform,
    ReverseSortedUniform,
    // heavy ties / density cliffs
    LogNormal3,
    FivePoint,
    HalfTiedFarBlock,
    TwoBlocksFarApart,
    Constant,
}

impl Family {
    fn smooth(self) -> bool {
        matches!(self, Family::Uniform | Family::Normal | Family::Exponential | Family::SortedUniform | Family::ReverseSortedUniform)
    }
    fn name(self) -> &'static str {
        match self {
            Family::Uniform => "uniform",
            Family::Normal => "normal",
            Family::Exponential => "exponential",
            Family::SortedUniform => "sorted",
            Family::ReverseSortedUniform => "reverse_sorted",
            Family::LogNormal3 => "lognormal3",
            Family::FivePoint => "five_point",
            Family::HalfTiedFarBlock => "half_tied_far_block",
            Family::TwoBlocksFarApart => "two_blocks",
            Family::Constant => "constant",
        }
    }
}

#[derive(Clone, Debug, Serialize, Deserialize)]
pub struct Case {
    pub scale: Scale,
    pub delta: f64,
    pub backlog: usize,
    pub n: u32,
    pub family: Family,
    pub seed: u64,
    /// positions (as 16-bit fractions of the stream) at which reads are interleaved
    pub reads: Vec<u16>,
    pub qs: Vec<f64>,
    /// additionally read after every `read_every` inserts (0 = no periodic reads)
    #[serde(default)]
    pub read_every: u16,
    /// all values are multiplied by 10^scale_exp (the rank statistics do not depend on the unit)
    #[serde(default)]
    pub scale_exp: i8,
}

pub fn data(f: Family, n: usize, seed: u64) -> Vec<f64> {
    let mut g = SplitMix64(seed);
    let mut v: Vec<f64> = match f {
        Family::Uniform | Family::SortedUniform | Family::ReverseSortedUniform => (0..n).map(|_| g.f64() * 100.0).collect(),
        Family::Normal => (0..n).map(|_| g.normal() * 3.0 + 10.0).collect(),
        Family::Exponential => (0..n).map(|_| -(1.0 - g.f64()).ln() * 5.0).collect(),
        Family::LogNormal3 => (0..n).map(|_| (3.0 * g.normal()).exp()).collect(),
        Family::FivePoint => (0..n).map(|_| [1.0, 2.0, 3.0, 5.0, 8.0][g.below(5) as usize]).collect(),
        Family::HalfTiedFarBlock => (0..n).map(|_| if g.below(2) == 0 { 7.0 } else { 1e6 + g.f64() }).collect(),
        Family::TwoBlocksFarApart => (0..n).map(|_| if g.below(3) == 0 { g.f64() } else { 1e6 + g.f64() * 10.0 }).collect(),
        Family::Constant => vec![42.5; n],
    };
    match f {
        Family::SortedUniform => v.sort_by(|a, b| a.partial_cmp(b).unwrap()),
        Family::ReverseSortedUniform => v.sort_by(|a, b| b.partial_cmp(a).unwrap()),
        _ => {}
    }
    v
}

/// maximal cluster width W of the scale function (the K2/K3 formulas apply once n >= delta)
pub fn width(scale: Scale, delta: f64, n: f64) -> f64 {
    match scale {
        Scale::K0 => 2.0 / delta,
        Scale::K1 => std::f64::consts::PI / delta,
        Scale::K2 => ((n / delta).ln() + 6.0) / delta,
        Scale::K3 => (2.0 * (n / delta).ln() + 10.5) / delta,
    }
}

pub struct C04;

impl Check for C04 {
    type Case = Case;
    fn name(&self) -> &'static str {
        "digests"
    }
    fn eval(&self, c: &Case) -> Verdict {
        let n = c.n as usize;
        let unit = 10f64.powi(c.scale_exp as i32);
        let xs: Vec<f64> = data(c.family, n, c.seed).into_iter().map(|x| x * unit).collect();
        let cfg = format!("{} delta={} backlog={} n={} data={} x 1e{}", c.scale.name(), c.delta, c.backlog, n, c.family.name(), c.scale_exp);
        let mut d = AnyTD::new(c.scale, c.delta, c.backlog);
        let mut read_at: Vec<usize> = c.reads.iter().map(|&r| idx(r, n.max(1))).collect();
        read_at.sort_unstable();
        read_at.dedup();
        let mut ri = 0;
        let mut merges_before_end = c.backlog < n;
        let mut worst_fill = 0.0f64;
        for (i, &x) in xs.iter().enumerate() {
            d.insert(x);
            let periodic = c.read_every > 0 && (i + 1) % c.read_every as usize == 0;
            if periodic {
                merges_before_end = true;
                let _ = d.cdf(x);
                let nc = d.n_centroids();
                worst_fill = worst_fill.max(nc as f64 / (c.delta + 3.0));
                if nc as f64 > c.delta + 3.0 {
                    return fail("too-many-centroids", format!("{} centroids after {} inserts (read every {} inserts), allowed delta + 3 = {} [{}]", nc, i + 1, c.read_every, c.delta + 3.0, cfg));
                }
            }
            while ri < read_at.len() && read_at[ri] == i {
                ri += 1;
                merges_before_end = true;
                let _ = d.quantile(0.5);
                let nc = d.n_centroids();
                worst_fill = worst_fill.max(nc as f64 / (c.delta + 3.0));
                if nc as f64 > c.delta + 3.0 {
                    return fail("too-many-centroids", format!("{} centroids after {} inserts (read interleaved), allowed delta + 3 = {} [{}]", nc, i + 1, c.delta + 3.0, cfg));
                }
            }
        }
        let nc = d.n_centroids();
        worst_fill = worst_fill.max(nc as f64 / (c.delta + 3.0));
        if nc as f64 > c.delta + 3.0 {
            return fail("too-many-centroids", format!("{} centroids after {} inserts, allowed delta + 3 = {} [{}]", nc, n, c.delta + 3.0, cfg));
        }
        if n == 0 {
            return Verdict::Pass(Info::new(false, hash_json(c)));
        }
        let judged = match c.scale {
            Scale::K0 | Scale::K1 => true,
            _ => n as f64 >= c.delta,
        };
        let mut worst_q = 0.0f64;
        if judged {
            let mut sorted = xs.clone();
            sorted.sort_by(|a, b| a.partial_cmp(b).unwrap());
            let nf = n as f64;
            let (mn, mx) = (sorted[0], sorted[n - 1]);
            let tau = 16.0 * f64::EPSILON * mn.abs().max(mx.abs()).max(mx - mn) * nf.max(1.0);
            let cmul = if c.family.smooth() { 1.0 } else { 3.0 };
            let w = width(c.scale, c.delta, nf);
            let bound = cmul * w + 2.0 / nf;
            let below = |x: f64| sorted.partition_point(|&v| v < x) as f64 / nf; // fraction < x
            let upto = |x: f64| sorted.partition_point(|&v| v <= x) as f64 / nf; // fraction <= x
            let mut qs: Vec<f64> = (0..=200).map(|i| i as f64 / 200.0).collect();
            qs.extend(c.qs.iter().copied().filter(|q| (0.0..=1.0).contains(q)));
            for &q in &qs {
                let x = d.quantile(q);
                if x.is_nan() {
                    return fail("quantile-NaN", format!("quantile({}) is NaN [{}]", q, cfg));
                }
                let (lo, hi) = (below(x - tau), upto(x + tau));
                let dist = (lo - q).max(q - hi).max(0.0);
                worst_q = worst_q.max(dist / bound);
                if dist > bound {
                    return fail(
                        format!("quantile-rank-error:{}", if c.family.smooth() { "smooth" } else { "ties" }),
                        format!("quantile({}) = {}: the fraction of inserted values <= it lies in [{:.5}, {:.5}], off by {:.5} > {} * W + 2/n = {:.5} (W = {:.5}) [{}; {} centroids]", q, x, lo, hi, dist, cmul, bound, w, cfg, nc),
                    );
                }
            }
            // cdf at 51 data points + generated x
            let mut xs_probe: Vec<f64> = (0..=50).map(|i| sorted[((n - 1) * i) / 50]).collect();
            for q in &c.qs {
                xs_probe.push(mn + (mx - mn) * q);
            }
            for &x in &xs_probe {
                let p = d.cdf(x);
                let (lo, hi) = (below(x - tau), upto(x + tau));
                let dist = (lo - p).max(p - hi).max(0.0);
                worst_q = worst_q.max(dist / bound);
                if dist > bound {
                    return fail(
                        format!("cdf-rank-error:{}", if c.family.smooth() { "smooth" } else { "ties" }),
                        format!("cdf({}) = {:.5} but the empirical CDF there lies in [{:.5}, {:.5}], off by {:.5} > {} * W + 2/n = {:.5} [{}; {} centroids]", x, p, lo, hi, dist, cmul, bound, cfg, nc),
                    );
                }
            }
        }
        let nontrivial = (n as f64) > c.delta && merges_before_end;
        let detail = serde_json::json!({"cfg": cfg, "centroids_over_delta_plus_3": (worst_fill * 1000.0).round() / 1000.0, "worst_rank_error_over_bound": (worst_q * 1000.0).round() / 1000.0});
        let mut info = Info::new(nontrivial, hash_json(c))
            .class(c.scale.name())
            .class_if(c.family.smooth(), "smooth")
            .class_if(!c.family.smooth(), "ties_or_cliffs")
            .class_if(judged, "accuracy_judged")
            .class_if(!c.reads.is_empty(), "interleaved_reads")
            .class_if(c.read_every > 0, "periodic_reads")
            .class_if(c.scale_exp != 0, "rescaled_values")
            .class_if(n >= 100_000, "n>=1e5");
        if worst_q > 0.6 || worst_fill > 0.9 {
            info.detail = Some(detail);
        }
        info.inner_evals = 260;
        Verdict::Pass(info)
    }
}

fn strategy(tier: Tier) -> BoxedStrategy<Case> {
    let nmax = tier.pick(100_000u32, 1_000_000u32);
    let budget = tier.pick(2.0e7f64, 1.5e8f64);
    let fam = prop_oneof![
        Just(Family::Uniform),
        Just(Family::Normal),
        Just(Family::Exponential),
        Just(Family::SortedUniform),
        Just(Family::ReverseSortedUniform),
        Just(Family::LogNormal3),
        Just(Family::FivePoint),
        Just(Family::HalfTiedFarBlock),
        Just(Family::TwoBlocksFarApart),
        Just(Family::Constant),
    ];
    let delta = prop_oneof![
        3 => prop_oneof![Just(1.1f64), Just(2.0), Just(5.0), Just(10.0), Just(20.0), Just(50.0), Just(100.0), Just(200.0), Just(500.0), Just(1000.0)],
        // just above 1 (total fusion)
        1 => prop_oneof![Just(1.001f64), Just(1.01), Just(1.03), Just(1.05), 1.0001f64..1.1],
        1 => 1.01f64..1000.0,
        1 => 1.01f64..40.0,
    ];
    let backlog = prop_oneof![4 => Just(0usize), 4 => Just(1), 4 => Just(10), 4 => Just(1000), 4 => 0usize..3000, 1 => prop_oneof![Just(usize::MAX), Just(usize::MAX - 1), Just(1usize << 62)]];
    let n = prop_oneof![
        2 => prop_oneof![Just(1u32), Just(3), Just(10), Just(100), Just(1000), Just(10_000), Just(100_000)],
        2 => 1u32..3000,
        1 => 1u32..nmax,
    ];
    let read_every = prop_oneof![4 => Just(0u16), 1 => Just(1u16), 1 => 1u16..30, 1 => 1u16..2000];
    let scale_exp = prop_oneof![3 => Just(0i8), 1 => -30i8..=30, 1 => prop_oneof![Just(-19i8), Just(-25), Just(12), Just(25)]];
    (scale(), delta, backlog, n, fam, any::<u64>(), prop::collection::vec(any::<u16>(), 0..5), prop::collection::vec(0.0f64..=1.0, 0..8), read_every, scale_exp)
        .prop_map(move |(scale, delta, backlog, n, family, seed, reads, qs, read_every, scale_exp)| {
            // a merge costs ~ (delta + backlog) log; every (backlog+1)-th insert (or periodic read) merges: cap the work
            let eff_backlog = if read_every > 0 { backlog.min(read_every as usize - 1) } else { backlog };
            let per_merge = delta.min(n as f64) + eff_backlog as f64 + 8.0;
            let merges = n as f64 / (eff_backlog as f64 + 1.0);
            let n = if merges * per_merge > budget { ((budget / per_merge) * (eff_backlog as f64 + 1.0)).max(1.0) as u32 } else { n };
            Case { scale, delta, backlog, n: n.max(1), family, seed, reads, qs, read_every, scale_exp }
        })
        .boxed()
}

pub fn checks() -> Vec<Box<dyn DynCheck>> {
    vec![Box::new(C04)]
}

pub fn run(ctx: &Ctx) {
    ctx.set_rule("generated: scale K0..K3 x delta in {1.001, 1.01, 1.03, 1.05, 1.1, …, 1000} + random x max_backlog_size in {0,1,10,1000, rarely 2^62, usize::MAX - 1, usize::MAX} + random x n in {1,3,10,...,1e5} + random (thorough up to 1e6; n capped so that merge work stays within budget) x data family (smooth: uniform, normal, exponential, sorted, reverse-sorted; ties/cliffs: lognormal sigma=3, 5-point discrete, half the mass tied + far block, two blocks 1e6 apart, constant) x a unit factor 10^e (e in -30..=30 in 40 % of the cases: rank statistics must not depend on the magnitude of the values) x interleaved reads at generated stream positions and, in 40 % of the cases, a read after every r inserts (r from 1 to 2000). Oracle: n_centroids() <= delta + 3 at every read and at the end; for q on a 201-point grid + generated q the rank interval of quantile(q) in the sorted data is within c*W + 2/n of q (c = 1 smooth, 3 ties/cliffs; K2/K3 judged for n >= delta); the same for cdf(x) at 51 data points + generated x. Non-trivial: n > delta and at least one merge before the end. Distinct = hash of the case. evaluations = digests + probes.");
    ctx.assume("rank of quantile(q) judged against the closed interval [fraction < x - tol, fraction <= x + tol] with tol = 16 ulps of the data range x n");
    ctx.run_regressions(&[&C04]);
    let t = ctx.tier;
    ctx.run_random(&C04, t.pick(4_000, 60_000), move || strategy(t));
    ctx.require_class("digests", "accuracy_judged", 0.5);
    ctx.require_class("digests", "ties_or_cliffs", 0.3);
    ctx.require_class("digests", "interleaved_reads", 0.5);
}
