//! pdsverif library part: engine, support and property oracles (shared with the fuzz targets).
pub mod engine;
pub mod props;
pub mod support;
