//! pdsverif — property-based verification harness for pdatastructs.rs (see /verif/DESIGN.md).
use pdsverif::engine::{self, Ctx, Tier, Verdict};
use pdsverif::{props, support};

#[global_allocator]
static GLOBAL: support::alloc::Counting = support::alloc::Counting;

fn usage() -> ! {
    eprintln!("usage: pdsverif run <ID> <quick|thorough> | replay <ID> <file> | list");
    std::process::exit(2);
}

fn main() {
    let args: Vec<String> = std::env::args().collect();
    if args.len() < 2 {
        usage();
    }
    engine::install_panic_hook();
    let seed: u64 = std::env::var("VERIF_SEED")
        .ok()
        .and_then(|s| s.trim().parse::<i128>().ok())
        .map(|v| v as u64)
        .unwrap_or(0);
    let jobs: usize = std::env::var("VERIF_JOBS")
        .ok()
        .and_then(|s| s.parse().ok())
        .unwrap_or_else(|| std::thread::available_parallelism().map(|n| n.get()).unwrap_or(4));
    match args[1].as_str() {
        "list" => {
            for p in props::ALL {
                println!("{}", p);
            }
        }
        "fuzz-seeds" => {
            // (re)write the committed golden inputs of the libFuzzer targets
            let dir = std::path::PathBuf::from(args.get(2).cloned().unwrap_or_else(|| "fuzz/seeds".into()));
            let d = dir.join("hll_json");
            std::fs::create_dir_all(&d).unwrap();
            for (i, g) in props::c20::goldens().iter().enumerate() {
                std::fs::write(d.join(format!("golden{}.json", i)), g).unwrap();
            }
            let d = dir.join("filter_ops");
            std::fs::create_dir_all(&d).unwrap();
            let mut g = engine::stat::SplitMix64(12345);
            for i in 0..24 {
                let len = 64 + (g.below(400) as usize);
                let mut b: Vec<u8> = (0..len).map(|_| g.next() as u8).collect();
                b[0] = (i % 3) as u8;
                std::fs::write(d.join(format!("seed{:02}.bin", i)), b).unwrap();
            }
            println!("seeds written to {:?}", dir);
        }
        "run" => {
            if args.len() < 4 {
                usage();
            }
            let tier = match args[3].as_str() {
                "quick" => Tier::Quick,
                "thorough" => Tier::Thorough,
                _ => usage(),
            };
            let ctx = Ctx::new(&args[2], tier, seed, jobs);
            if !props::run(&ctx) {
                eprintln!("unknown property {}", args[2]);
                std::process::exit(2);
            }
            std::process::exit(ctx.finish());
        }
        "replay" => {
            if args.len() < 4 {
                usage();
            }
            let id = &args[2];
            let txt = std::fs::read_to_string(&args[3]).unwrap_or_else(|e| {
                eprintln!("cannot read {}: {}", args[3], e);
                std::process::exit(2)
            });
            let doc: serde_json::Value = serde_json::from_str(&txt).unwrap_or_else(|e| {
                eprintln!("bad json: {}", e);
                std::process::exit(2)
            });
            let sub = doc["sub"].as_str().unwrap_or("").to_string();
            let checks = props::checks(id);
            let Some(c) = checks.iter().find(|c| c.dyn_name() == sub) else {
                eprintln!("property {} has no sub-check {:?}", id, sub);
                std::process::exit(2);
            };
            match c.eval_json(&doc["case"]) {
                Ok(Verdict::Pass(_)) => {
                    println!("replay {} {}: oracle passes on this case", id, sub);
                    std::process::exit(0);
                }
                Ok(Verdict::Fail { sig, msg }) => {
                    println!("VIOLATION property={} replay={}", id, args[3]);
                    println!("  sub={} signature={}", sub, sig);
                    println!("  {}", msg);
                    std::process::exit(1);
                }
                Err(e) => {
                    eprintln!("cannot decode case: {}", e);
                    std::process::exit(2);
                }
            }
        }
        _ => usage(),
    }
}
