#!/bin/bash
# Official confirmation of every seeded change: apply it to /repo, run the quick check of its
# property, undo it straight afterwards. Usage: tools/confirm_seeded.sh [dir-glob]
# Writes one line per change to out/confirm_seeded.log. /repo must be clean before and is clean after.
set -u
cd /verif
[ -z "$(git -C /repo status --porcelain -- src)" ] || { echo "/repo has local changes"; exit 2; }
mkdir -p out; : > out/confirm_seeded.log
for d in seeded/${1:-*}; do
  name=$(basename "$d"); pid=${name:0:3}
  # a change whose demonstration concerns an operation owned by another property names that check in meta.json
  cw=$(python3 -c "import json,sys; print(json.load(open(sys.argv[1])).get('confirm_with',''))" "$d/meta.json" 2>/dev/null); [ -n "$cw" ] && pid=$cw
  if ! git -C /repo apply "$PWD/$d/patch.diff" 2>/dev/null; then echo "$name: patch does not apply" | tee -a out/confirm_seeded.log; continue; fi
  out=$(./check $pid quick 2>&1 | grep -v "^KNOWN-FINDING"); rc=$?
  rc=$(echo "$out" | grep -o "exit=[0-9]" | tail -1)
  sig=$(echo "$out" | grep -m1 "signature=" | sed 's/.*signature=//')
  git -C /repo checkout -- .
  echo "$name: ./check $pid quick -> $rc ${sig:+VIOLATION ($sig)}" | tee -a out/confirm_seeded.log
done
[ -z "$(git -C /repo status --porcelain -- src)" ] && echo "/repo clean"
