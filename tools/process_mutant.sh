#!/bin/bash
# tools/process_mutant.sh <worktree-name e.g. C01b> <slug> <check ID> [more check IDs]
# Verifies a sub-agent's seeded change (tools/verify_mutant.sh), runs the given quick checks against it
# through a scratch harness copy, stores it under seeded/<name>-<slug>/ and removes the worktree.
set -u
name="$1"; slug="$2"; shift 2
pid=${name:0:3}
wt=/tmp/mut_$name
cd /verif
if ! tools/verify_mutant.sh $pid $wt/MUTATION 2>&1 | grep -v "^WARNING conda" | tail -1; then echo "NOT CONFIRMED: $name"; fi
tools/verify_mutant.sh $pid $wt/MUTATION >/tmp/pm_verify.log 2>&1; ok=$?
summary=""
for id in "$@"; do
  out=$(tools/try_mutant_scratch.sh $wt quick $id 2>&1 | grep -v "^WARNING conda")
  echo "$out" | cut -c1-300 | tail -5
  sig=$(echo "$out" | grep -m1 "signature=" | sed 's/.*signature=//')
  rc=$(echo "$out" | grep -o "rc=[0-9]*" | tail -1)
  if [ -n "$sig" ]; then summary="$summary./check $id quick -> VIOLATION ($sig); "; else summary="$summary./check $id quick -> silent ($rc); "; fi
done
d=seeded/$name-$slug; mkdir -p $d
cp $wt/MUTATION/patch.diff $wt/MUTATION/demo_*.rs $d/
python3 - "$pid" "$d" "$summary" "$ok" "$wt" <<'PY'
import json,sys
pid,d,res,ok,wt=sys.argv[1:6]
a=json.load(open(wt+'/MUTATION/meta.json'))
m={"property":pid,"summary":a.get('summary'),"needs":a.get('needs'),
   "origin":"written by a fresh sub-agent that was given only the property text (plus a one-line direction which part of the library to aim at) and a scratch worktree",
   "confirmed":("tools/verify_mutant.sh %s <dir>: demo passes on the unchanged tree; with patch.diff applied the 213 unit tests and 16 doctests pass and the demo fails (run in a scratch worktree outside /repo and /verif)"%pid) if ok=="0" else "NOT confirmed by tools/verify_mutant.sh",
   "checks_run":res.strip()}
json.dump(m,open(d+'/meta.json','w'),indent=1)
PY
git -C /repo worktree remove --force $wt; rm -rf /tmp/hscratch_mut_$name
echo "stored $d (verify rc=$ok): $summary"
