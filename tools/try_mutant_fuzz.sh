#!/bin/bash
# Exploration helper (NOT a registered check): run one libFuzzer target against a seeded change.
#   tools/try_mutant_fuzz.sh <seeded-dir-name> <target> <runs>
# Builds a scratch copy of the harness (incl. fuzz crate) against a scratch worktree with the patch applied.
set -u
name="$1"; target="$2"; runs="${3:-200000}"
wt=/tmp/mutf_wt; H=/tmp/mutf_h
git -C /repo worktree remove --force $wt 2>/dev/null; rm -rf $H
git -C /repo worktree add -q $wt HEAD && git -C $wt apply /verif/seeded/$name/patch.diff || exit 2
mkdir -p $H; rsync -a --exclude target /verif/harness/ $H/harness/
sed -i "s#path = \"/repo\"#path = \"$wt\"#" $H/harness/Cargo.toml
(cd $H/harness && CARGO_NET_OFFLINE=true CARGO_TARGET_DIR=/tmp/mutf_target cargo +nightly fuzz build -s none $target >$H/build.log 2>&1) || { tail -20 $H/build.log; exit 2; }
mkdir -p $H/corpus $H/art; cp $H/harness/fuzz/seeds/$target/* $H/corpus/
/tmp/mutf_target/x86_64-unknown-linux-gnu/release/$target $H/corpus -runs=$runs -seed=11 -max_len=2048 -len_control=0 -print_final_stats=1 -artifact_prefix=$H/art/ 2>&1 | grep -E "oracle violated|number_of_executed|ERROR" | cut -c1-300
ls $H/art | head -3
git -C /repo worktree remove --force $wt; rm -rf $H
