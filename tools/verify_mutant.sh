#!/bin/bash
# Independent confirmation of a seeded change, in a scratch worktree (never in /repo):
#   tools/verify_mutant.sh <ID> <dir-with-patch.diff-and-demo>
# 1. demo passes on the unchanged tree  2. patch applies, crate builds, existing unit tests + doctests pass
# 3. demo fails with the patch
set -u
id="$1"; src="$2"; lid=$(echo "$id" | tr 'A-Z' 'a-z')
wt=/tmp/ver_mut
git -C /repo worktree remove --force $wt >/dev/null 2>&1
git -C /repo worktree add -q $wt HEAD || exit 2
mkdir -p $wt/tests; cp "$src"/demo_*.rs $wt/tests/
cd $wt
export CARGO_NET_OFFLINE=true
demo=$(basename $(ls tests/demo_*.rs | head -1) .rs)
cargo test --offline --test $demo >/tmp/ver_demo_clean.log 2>&1; rc_clean=$?
git apply "$src/patch.diff" || { echo "$id: patch does not apply"; exit 2; }
cargo test --offline --lib >/tmp/ver_lib.log 2>&1; rc_lib=$?
cargo test --offline --doc >/tmp/ver_doc.log 2>&1; rc_doc=$?
cargo test --offline --test $demo >/tmp/ver_demo_mut.log 2>&1; rc_mut=$?
echo "$id: demo_on_clean_rc=$rc_clean unit_tests_with_patch_rc=$rc_lib ($(grep -h 'test result' /tmp/ver_lib.log | head -1)) doctests_rc=$rc_doc demo_with_patch_rc=$rc_mut"
cd /; git -C /repo worktree remove --force $wt
[ $rc_clean -eq 0 ] && [ $rc_lib -eq 0 ] && [ $rc_doc -eq 0 ] && [ $rc_mut -ne 0 ]
