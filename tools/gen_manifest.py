#!/usr/bin/env python3
"""Regenerates /verif/MANIFEST.json from the table below (run after adding a check)."""
import json, os, sys

ROOT = os.path.dirname(os.path.dirname(os.path.abspath(__file__)))

# id -> (technique, level text, level note)
P = {
 "C01": ("model-based stateful PBT (proptest op histories + generated hash functions and RNG scripts) against a key-multiset model",
         "Generated insert/delete/union/clear histories over all four Filter implementations with generated BuildHashers (identity, split, constant, modulo, SipHash), scripted eviction RNG and union operands that (for the cuckoo filter) had elements deleted again; after every step every key the model holds must be reported present. Sampling, not proof: finds false negatives reachable within <=600-op histories over <=48-key colliding universes.",
         "Trusts the harness's multiset model and that the generated BuildHasher families are legal hashers; large tables are only exercised by C07."),
 "C02": ("model-based stateful PBT against exact counts, five counter types, colliding hashers (+ libFuzzer target sketch_ops in the thorough tier)",
         "Histories of add/add_n/merge/clear on u8..u64/usize counters with w != d and whole-row-colliding hashers; checks true(x) <= query_point(x) <= N for every key after every step, the add return value and single-key exactness.",
         "Weights are generated so that the documented checked_add overflow panic is never provoked."),
 "C03": ("statistical PBT: per-seed error distributions per (b, n) cell, z=6 one-sided tests with confirmation; plus generated register vectors for the no-panic part",
         "For all 15 precisions measures RMS, mean and 3*RE exceedance of count() over many independent hash streams on a cardinality grid dense around the estimator switch-overs, against numeric readings of the property's bounds fixed in DESIGN.md; exact sub-checks for empty/small sketches; arbitrary register vectors never panic.",
         "Bounds 'about RE' read as 1.25*RE (2.2*RE in the bump), 'close to zero' as 0.75*RE, 'a few percent' as 5%; a single corrupted table constant shifts results by less than the resolution (DESIGN C03 L)."),
 "C04": ("PBT with a sorted-data oracle over generated (scale, delta, backlog, n, data family, read positions)",
         "Checks n_centroids <= delta+3 at every read and the rank-error bound c*W + 2/n (c=1 smooth, c=3 ties/cliffs) for quantile on a 201-point grid and cdf at data points, for K0..K3.",
         "Rank of quantile(q) judged against the closed rank interval of x +- tolerance; K2/K3 judged only for n >= delta as the property states."),
 "C05": ("statistical PBT over RNG seeds: per-position inclusion frequencies, z=6 + chi-square with confirmation",
         "Exact regime (n <= 4k+1): every stream position's inclusion frequency against k/n; gap regime: position classes (first k, plain phase, switch item, the k items after it, deciles, last k) against k/n within the documented (1+ln(n/4k))/k envelope; the same on samplers reused after clear().",
         "Probability taken over SmallRng/ChaCha8 seeds derived from VERIF_SEED; bias below ~1/k in the gap regime is by the property's wording not a violation."),
 "C06": ("differential PBT: merged structure vs. fresh structure fed both streams; metamorphic commutativity/associativity/idempotence",
         "For Bloom, Quotient, Cuckoo, CMS and HLL compares every observation of A.merge(B) with a reference that processed A's then B's stream (cuckoo: against the class-multiset model), checks B unchanged and the algebraic laws.",
         "Observational equality is over the generated universe plus fresh probe keys, len/is_empty/count/registers."),
 "C07": ("statistical PBT over hasher seeds x probe sets per (constructor, n, p) cell, z=6 with confirmation; generated usability cases over the (n,p) plane",
         "Usability for n>=1, 0<p<1 incl. p>0.5 and n=1 (k>=1, m>=1, no panic, n inserts accepted); measured false-positive frequency vs. p (cuckoo), 1.3p (Bloom, n>=50), m*2^-(q+r) (quotient); Bloom len() tracking.",
         "p below ~1e-6 cannot be measured within budget (usability only). Two Bloom cells are recorded known findings."),
 "C08": ("statistical PBT over (epsilon, delta, stream shape) cells x hasher seeds, z=6 with confirmation",
         "Measures the fraction of (seed, element) pairs whose overestimate exceeds epsilon*N for heavy-hitter, zipf and uniform streams and compares with delta.",
         "Eight (epsilon, delta) cells with delta << epsilon are recorded known findings (double-hashing floor) with ceilings; all other cells judged strictly."),
 "C09": ("differential PBT against a reference Manku-Motwani implementation and exact counts at every prefix (+ libFuzzer target sketch_ops in the thorough tier)",
         "Generated streams (uniform, zipf, distinct, boundary adversary, blocks) for with_epsilon/with_width; n(), add's return value, query(0) == reference table, no-miss / no-intruder for generated thresholds, table-size bound, at every prefix.",
         "Float guard band 1e-9*n on the (s-epsilon)*n comparisons."),
 "C10": ("model-based PBT: exact counts + shadow CountMinSketch for the error term E, every prefix (+ libFuzzer target sketch_ops in the thorough tier)",
         "Generated k, sketch shapes from 1x1 to collision-free, alphabets with ties; at each prefix iter() yields exactly min(k, distinct) distinct seen elements, a missing x has >= k others with true count >= true(x) - E, and add never panics.",
         "CMSHeap fixes the default hasher, so collisions are steered via (w, d) and the alphabet."),
 "C11": ("PBT over configurations with a counting global allocator as oracle",
         "Measures heap bytes held per structure over a configuration grid and growing stream lengths (incl. clear and failed operations) against c * model(config) and against growth with the stream.",
         "'small constant factor' read as c=2 (flat arrays) / c=4 (hash-map/tree based); measured on one thread with a thread-local counting allocator."),
 "C12": ("stateful PBT with full observable snapshots around failing calls; scripted RNG; continuation differential against a pre-call clone; libFuzzer target filter_ops in the thorough tier",
         "Fills cuckoo/quotient filters to generated levels, provokes failing inserts and unions failing at first/middle/last transferred fingerprint, and requires the snapshot (len, is_empty, all queries, per-class delete counts), the other operand and a generated continuation to be unaffected.",
         "Snapshot is over the generated universe + 200 fresh keys; continuation uses a cloned RNG state."),
 "C13": ("exhaustive enumeration of insertion sequences for tiny (q, r) + model-based PBT with behaviourally computed fingerprint classes (+ libFuzzer target filter_ops in the thorough tier)",
         "Every insertion sequence up to a length bound and every subset of classes in several orders for small tables (exhaustive), random histories with wrap-around clusters for larger ones; query/len/insert result must equal the class-set model exactly (presence and absence).",
         "Classes are computed behaviourally from single-element filters, no internal formula is replicated."),
 "C14": ("exhaustive enumeration of insert/delete sequences on tiny tables under several RNG scripts + model-based PBT over a class multiset (+ libFuzzer target filter_ops in the thorough tier)",
         "Checks len, query, delete's return value and exact one-copy removal, Ok(true) on success, unchanged state on Err and guaranteed success below bucketsize elements.",
         "Classes computed behaviourally; per-class copy counts measured by deleting on clones."),
 "C15": ("PBT with metamorphic/invariant oracles (monotonicity, bounds, inverse consistency, idempotent reads) + libFuzzer target tdigest_ops in the thorough tier",
         "Generated digests (all scale functions, ties, weights over 12 decades) probed on dense q and x grids incl. both tails; debug assertions of interpolate() are enabled.",
         "Tolerances as stated by the property: a few ulps of the data range scaled by total/smallest weight."),
 "C16": ("PBT against exact accumulations + twin differential without zero-weight inserts + libFuzzer target tdigest_ops in the thorough tier",
         "count/sum/mean within accumulation accuracy, min/max exact, zero-weight inserts change nothing (bit-identical twin), is_empty iff no positive weight.",
         "Relative tolerance 1e-9 on sums."),
 "C17": ("model-based PBT against a reference register model; permutation/duplication metamorphic relation",
         "Registers equal the bit-scan reference model for arbitrary boundary hashes at all precisions; order/duplication invariance; add == add_hashed(hash_one); reconstruction equality.",
         "Reference model written from the property text."),
 "C18": ("PBT with scripted/extreme RNG words; validity invariant after every add",
         "len == min(n,k), items are distinct stream positions < n, prefix order until k, i() == n, is_empty iff n == 0, no panic, across all three phases, on fresh samplers and on samplers reused after clear().",
         "Stream items are position ids so duplicates are detectable."),
 "C19": ("differential PBT: cleared structure vs. fresh structure under identical continuations (shared RNG stream); clone independence",
         "All nine structures (TDigest x 4 scales): observations after clear equal those of a new structure, step-by-step equal continuation, clone unaffected by mutation of the original and vice versa, is_empty semantics.",
         "RNG-bearing structures get a forked copy of the cleared structure's RNG state."),
 "C20": ("round-trip PBT + structured-document PBT + byte-level mutation PBT (quick and thorough) + libFuzzer campaign (thorough) with the invariant oracle in the target",
         "serde_json round trip equality and identical reaction to further adds/merges; every generated document either fails to deserialise or yields a sketch with 4<=b<=18 and 2^b registers on which add/count/merge do not panic.",
         "serde_json is the only format exercised."),
}

BUILT = sorted(x.strip() for x in open(os.path.join(ROOT, "tools", "built.txt")).read().split() if x.strip())

checks = []
for pid in BUILT:
    tech, text, note = P[pid]
    checks.append({
        "property_id": pid,
        "quick_cmd": f"./check {pid} quick",
        "thorough_cmd": f"./check {pid} thorough",
        "evidence_file": f"/verif/evidence/{pid}.json",
        "replay_cmd_template": f"./check replay {pid} {{path}}",
        "engine": "pdsverif",
        "level_claimed": {"category": "exploration", "text": text, "design_ref": f"DESIGN.md §5 {pid}"},
        "level_note": note,
        "technique": tech,
    })

na = [{"property_id": pid, "reason": "check not built yet in this revision of /verif (planned: " + P[pid][0] + ")"}
      for pid in sorted(P) if pid not in BUILT]

hooks_commits = [l.strip() for l in open(os.path.join(ROOT, "tools", "hook_commits.txt")).read().split() if l.strip()] if os.path.exists(os.path.join(ROOT, "tools", "hook_commits.txt")) else []

m = {
 "version": 1,
 "setup_cmd": "./setup.sh",
 "hooks": {
   "guard": "--cfg pdatastructs_verif",
   "enable": "no hooks are needed: hash functions and RNG are constructor type parameters and the harness supplies its own; checks build /repo unmodified via a cargo path dependency",
   "baseline_off_cmd": "cd /repo && cargo test --workspace --no-fail-fast --offline",
   "source_commits": hooks_commits,
   "add_only": True,
 },
 "engines": [{
   "name": "pdsverif",
   "path": "/verif/harness",
   "serves_properties": BUILT,
   "kind_free_text": "Rust binary: proptest runners on 16 workers with fixed seeds, exhaustive enumerators, statistical cell tests, counting allocator; path-depends on /repo so every check rebuilds the library from the working tree",
 }],
 "checks": checks,
 "not_applicable": na,
 "notes": "All checks: ./check <ID> <quick|thorough>; exit 0 held, 1 violation (VIOLATION line), 2 inconclusive (build failure, watchdog incl. the per-case limit, degenerate generator). Known findings: /verif/known_findings.json (10 fixed, 10 known cells of C07/C08). Seeded source changes used to test the checks: /verif/seeded (DESIGN.md section 11).",
}
json.dump(m, open(os.path.join(ROOT, "MANIFEST.json"), "w"), indent=1)
print("MANIFEST.json written:", len(checks), "checks,", len(na), "not_applicable")
