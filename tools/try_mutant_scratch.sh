#!/bin/bash
# Exploration helper (NOT a registered check): run checks against a mutated copy of the library
# that lives in a scratch worktree, without touching /repo.
#   tools/try_mutant_scratch.sh <worktree-with-change-applied> <tier> <ID> [ID...]
# Builds a scratch copy of the harness whose path dependency points at the worktree.
set -u
wt="$1"; tier="$2"; shift 2
name=$(basename "$wt")
H=/tmp/hscratch_$name
rm -rf "$H"; mkdir -p "$H"
rsync -a --exclude target /verif/harness/ "$H/harness/"
sed -i "s#path = \"/repo\"#path = \"$wt\"#" "$H/harness/Cargo.toml"
cp /verif/known_findings.json "$H/"; cp -r /verif/regressions "$H/"
(
  flock 9
  (cd "$H/harness" && CARGO_NET_OFFLINE=true CARGO_TARGET_DIR=/tmp/hscratch_target cargo build --release --offline >"$H/build.log" 2>&1) || { echo "BUILD FAILED for $wt"; tail -20 "$H/build.log"; exit 2; }
  cp /tmp/hscratch_target/release/pdsverif "$H/pdsverif"
) 9>/tmp/hscratch.lock
for id in "$@"; do
  VERIF_DIR="$H" timeout 1800 "$H/pdsverif" run "$id" "$tier" 2>&1 | grep -v "^KNOWN-FINDING" | cut -c1-400 | tail -6
  echo "== $name $id rc=${PIPESTATUS[0]}"
done
