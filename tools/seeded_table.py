#!/usr/bin/env python3
"""Rewrites the table at the end of DESIGN.md §11 from seeded/*/meta.json."""
import json, glob, os
ROOT = os.path.dirname(os.path.dirname(os.path.abspath(__file__)))
p = os.path.join(ROOT, "DESIGN.md")
s = open(p).read()
marker = "| seeded change (`seeded/…`) | what it needs | caught by (quick tier) |\n|---|---|---|\n"
head = s[: s.index(marker) + len(marker)]
tail_marker = "\n<!-- end of seeded table -->\n"
rest = s[s.index(marker) + len(marker):]
after = rest[rest.index(tail_marker) + len(tail_marker):] if tail_marker in rest else ""
def short(t, n):
    t = " ".join(str(t).split()).replace("|", "/")
    return t if len(t) <= n else t[: n - 1] + "…"
rows = []
for d in sorted(glob.glob(os.path.join(ROOT, "seeded", "*"))):
    m = json.load(open(os.path.join(d, "meta.json")))
    rows.append("| `%s` — %s | %s | %s |" % (os.path.basename(d), short(m.get("summary"), 230), short(m.get("needs"), 260), short(m.get("checks_run"), 330)))
open(p, "w").write(head + "\n".join(rows) + "\n" + tail_marker + after)
print(len(rows), "rows")
