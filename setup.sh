#!/bin/bash
# MANIFEST.setup_cmd: offline build of the harness (and, if present, the fuzz targets)
set -e
cd "$(dirname "$(readlink -f "$0")")"
export CARGO_NET_OFFLINE=true
mkdir -p out evidence
(cd harness && cargo build --release --offline)
if [ -d fuzz ] && [ -f fuzz/Cargo.toml ]; then
  (cd fuzz && cargo +nightly fuzz build -O --debug-assertions 2>&1 | tail -3) || echo "fuzz targets did not build (thorough tier only)"
fi
echo "setup ok"
