#!/bin/bash
# MANIFEST.setup_cmd: offline build of the harness (and, if present, the fuzz targets)
set -e
cd "$(dirname "$(readlink -f "$0")")"
export CARGO_NET_OFFLINE=true
mkdir -p out evidence
(cd harness && cargo build --release --offline)
# libFuzzer targets (used by the thorough tier of C02, C09, C10, C12-C16 and C20 only); a failure here does not
# affect the quick tier
if [ -f harness/fuzz/Cargo.toml ]; then
  (cd harness && cargo +nightly fuzz build -s none 2>&1 | tail -3) || echo "fuzz targets did not build (thorough tier runs without the libFuzzer campaigns)"
fi
echo "setup ok"
